-------------------------------- MODULE Trace --------------------------------
(***************************************************************************)
(* Trace validation: the log recorded from the real library (one JSON      *)
(* object per line, path in the environment variable TRACE) is consumed    *)
(* one event per step.  For each event the specification's expectation is  *)
(* evaluated and compared with what the implementation returned.           *)
(*                                                                         *)
(* Deviation from the usual idiom (see DESIGN.md 5.4): a disagreement does *)
(* NOT disable the step.  It is printed as a MISMATCH line carrying the    *)
(* event index and the expected outcomes, counted in `bad`, and validation *)
(* goes on, so that every event of the log is judged.  An unconsumed       *)
(* suffix therefore means a hole in the specification or a malformed log;  *)
(* the POSTCONDITION turns that into a TLC error (a tool failure, never a  *)
(* violation).                                                             *)
(***************************************************************************)
EXTENDS Sem, TLC, Json, IOUtils

Log == ndJsonDeserialize(IOEnv.TRACE)

VARIABLES l,        \* index of the next event
          bad       \* number of disagreements so far
vars == <<l, bad>>

Init == l = 1 /\ bad = 0

Step == /\ l <= Len(Log)
        /\ LET e  == Log[l]
               x  == Exp(e)
               ok == \A f \in DOMAIN e.fo : MatchU(Ty(e.w, e.s), e.fo[f], x[f])
           IN /\ (IF ok THEN TRUE ELSE PrintT("MISMATCH " \o ToString(e.i) \o " " \o ToJson(x)))
              /\ bad' = bad + (IF ok THEN 0 ELSE 1)
        /\ l' = l + 1

Spec == Init /\ [][Step]_vars

\* every line of the log was consumed
Consumed == IF TLCGet("stats").diameter = Len(Log) + 1 THEN TRUE ELSE PrintT(<<"UNCONSUMED", TLCGet("stats").diameter, Len(Log)>>) /\ FALSE
==============================================================================
