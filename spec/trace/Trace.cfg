SPECIFICATION Spec
CONSTANT Base = 256
POSTCONDITION Consumed
CHECK_DEADLOCK FALSE
