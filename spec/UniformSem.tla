------------------------------ MODULE UniformSem ------------------------------
(***************************************************************************)
(* L2: random generation (property C20).                                   *)
(*                                                                         *)
(* Standard / Fill: the generated value's little-endian bytes are the next *)
(* BYTES bytes of the RNG stream; a slice fill equals element-wise fills.  *)
(* Uniform sampling: every result lies in the requested range, and -- on   *)
(* the complete enumeration of the first RNG word recorded by the harness  *)
(* as a histogram -- every value of the range has the same number (>= 1)   *)
(* of accepted preimages, accepted + rejected words = 2^BITS, and no word  *)
(* produces a value outside the range.  Which words are rejected is left   *)
(* free, exactly as in the property (the design-level model of the         *)
(* widening-multiply sampler and both of its zone formulas is checked for  *)
(* unbiasedness by MC_Uniform).                                            *)
(***************************************************************************)
EXTENDS NumSem

Hist(size, total) == [k |-> "hist", size |-> size, total |-> total]
RECURSIVE SumSeq(_, _)
SumSeq(s, i) == IF i > Len(s) THEN 0 ELSE s[i] + SumSeq(s, i + 1)
HistOK(o, x) == /\ o.k = "rec"
                /\ o.outside.v = <<0>>
                /\ Len(o.counts.v) = x.size
                /\ o.counts.v[1] >= 1
                /\ \A i \in 1..Len(o.counts.v) : o.counts.v[i] = o.counts.v[1]
                /\ SumSeq(o.counts.v, 1) + o.rejected.v[1] = x.total
InRangeOf(lo, hi) == [k |-> "inrange", lo |-> lo, hi |-> hi]
InRangeRec(lo, hi) == [k |-> "inrangerec", lo |-> lo, hi |-> hi]

\* acceptance depends on the word alone: k copies of a rejected word followed by an accepted word u give what u
\* alone gives and consume exactly k + 1 words.  `after` is judged against the recorded `alone`.
Stateless(alone, k, nb) == [k |-> "stateless", alone |-> alone, words |-> k, nb |-> nb]
StatelessOK(o, x) == /\ o.k = "rec" /\ x.alone.k = "rec"
                     /\ o.v = x.alone.v
                     /\ x.alone.used.v = FromInt(x.nb)
                     /\ o.used.v = FromInt((x.words + 1) * x.nb)
MatchU(T, o, x) ==
    CASE x.k = "hist" -> HistOK(o, x)
      [] x.k = "stateless" -> StatelessOK(o, x)
      [] x.k = "inrange" -> o.k = "val" /\ ZLe(x.lo, Dec(T, o.v)) /\ ZLe(Dec(T, o.v), x.hi)
      [] x.k = "inrangerec" -> o.k = "rec" /\ o.v.k = "val" /\ ZLe(x.lo, Dec(T, o.v.v)) /\ ZLe(Dec(T, o.v.v), x.hi)
      [] OTHER -> Match(o, x)

C20Exp(e) ==
    LET T == Ty(e.w, e.s)
        a == e.a
        nb == T.w \div 8
    IN CASE e.op = "standard" ->
              AllForms(e, [k |-> "rec", v |-> [k |-> "val", v |-> a[1].v], used |-> ONat(FromInt(nb))])
         [] e.op = "fill_slice" ->
              AllForms(e, [k |-> "rec", v |-> OBytes(a[1].v), used |-> ONat(FromInt(nb * AI(a[2])))])
         [] e.op = "uniform_hist" -> AllForms(e, Hist(AI(a[3]), PowInt(2, T.w)))
         [] e.op = "uniform_point" -> AllForms(e, InRangeOf(AV(a[1]), AV(a[2])))
         [] e.op = "uniform_stateless" ->
              [f \in Forms(e) |-> IF f = "alone" THEN InRangeRec(AV(a[1]), AV(a[2])) ELSE Stateless(e.fo.alone, AI(a[5]), nb)]
=============================================================================
