------------------------------ MODULE CodecSem ------------------------------
(***************************************************************************)
(* L2, beyond the listed properties: the optional encodings of a bnum      *)
(* integer (cargo features serde, borsh, zeroize, arbitrary).  None of the *)
(* twenty properties speaks about them; they are specified here because    *)
(* they are part of the system's observable behaviour, and are checked by  *)
(* bin/beyond (never attributed to a property).                            *)
(*                                                                         *)
(*  serde     BUint serialises as a struct with one field `digits`, the    *)
(*            little-endian digit array; BInt as a struct with one field   *)
(*            `bits` holding that BUint.  The harness turns the digit      *)
(*            numbers of the JSON text into little-endian bytes, so the    *)
(*            expected observation is the value's two's-complement         *)
(*            encoding Enc(T, x).  Deserialisation inverts it; an array of *)
(*            the wrong length or a digit out of range is an error.        *)
(*  borsh     the bytes are the digits in order, each little-endian: again *)
(*            Enc(T, x); from_slice inverts it; a slice that is too short  *)
(*            or too long is an error.                                     *)
(*  zeroize   leaves ZERO.                                                 *)
(*  arbitrary the derived Arbitrary fills the digit array from the byte    *)
(*            stream in order, each digit little-endian, zero-padding an   *)
(*            exhausted stream: the value of the first BYTES bytes.        *)
(***************************************************************************)
EXTENDS UniformSem

\* the first n bytes of s, zero-padded
PadTake(s, n) == [i \in 1..n |-> IF i <= Len(s) THEN s[i] ELSE 0]

X01Exp(e) ==
    LET T == Ty(e.w, e.s)
        a == e.a
    IN CASE e.op \in {"serde", "borsh"} ->
              [f \in Forms(e) |-> IF f \in {"json_digits", "bytes"} THEN OBytes(Enc(T, AV(a[1]))) ELSE OVal(T, AV(a[1]))]
         [] e.op \in {"serde_bad", "borsh_bad"} -> AllForms(e, OErr("codec"))
         [] e.op = "zeroize" -> AllForms(e, OVal(T, ZZero))
         [] e.op = "arbitrary" ->
              LET D == ATy(a[2])
              IN AllForms(e, OVal(D, IntOfBytes(PadTake(a[1].v, D.w \div 8), D.s)))
=============================================================================
