------------------------------ MODULE ArithSem ------------------------------
(***************************************************************************)
(* L2: the meaning of the arithmetic API (properties C01, C02, C03, C04,   *)
(* C08).  A call family is an operation name plus the outcomes of all its  *)
(* forms (overflowing_/checked_/wrapping_/saturating_/strict_/operator/    *)
(* unchecked_) on one operand tuple.  The forms are projections of the     *)
(* exact integer result -- which is literally how the properties are       *)
(* phrased -- so the exact result is computed once per family.             *)
(*                                                                         *)
(* ArithExp(e) is a function from the form names recorded in the event to  *)
(* the expected outcome.  Where the property leaves freedom the expected   *)
(* outcome is one of the loose tokens Free / AnyVal / OneOf (see Match).   *)
(***************************************************************************)
EXTENDS FixedInt

Free        == [k |-> "free"]                     \* the property fixes nothing
AnyVal      == [k |-> "anyval"]                   \* any value, but no panic
NoPanic     == [k |-> "nopanic"]                  \* anything except a panic
OneOf(S)    == [k |-> "oneof", set |-> S]
Match(o, x) == CASE x.k = "free"    -> TRUE
                 [] x.k = "anyval"  -> o.k = "val"
                 [] x.k = "nopanic" -> o.k # "panic"
                 [] x.k = "oneof"   -> o \in x.set
                 [] x.k = "pairflag" -> o.k = "pair" /\ o.f = x.f
                 [] OTHER           -> o = x

Forms(e) == DOMAIN e.fo
\* TLC passes operator arguments and LET definitions by name; binding through a singleton set
\* forces one evaluation of an expensive exact result that several forms then share.
Force(x) == CHOOSE v \in {x} : TRUE
AllForms(e, x) == [f \in Forms(e) |-> x]

IsMinNeg1(T, x, y) == T.s /\ x = MinOf(T) /\ y = ZNeg(ZOne)

-----------------------------------------------------------------------------
\* C01: add, sub, neg, abs and friends
MidPoint(T, x, y) == LET s == ZAdd(x, y)
                     IN IF T.s THEN ZDivTrunc(s, ZFromInt(2))[1] ELSE ZDivFloor(s, ZFromInt(2))[1]

C01Exp(e) ==
    LET T == Ty(e.w, e.s)
        a == e.a
        op == e.op
        Proj(x) == LET v == Force(x) IN [f \in Forms(e) |-> ByForm(f, e.mode, T, v)]
    IN CASE op = "add" -> Proj(ZAdd(AV(a[1]), AV(a[2])))
         [] op = "sub" -> Proj(ZSub(AV(a[1]), AV(a[2])))
         [] op = "neg" -> Proj(ZNeg(AV(a[1])))
         [] op = "abs" -> Proj(ZAbs(AV(a[1])))
         [] op = "add_signed"   -> Proj(ZAdd(AV(a[1]), AV(a[2])))
         [] op = "add_unsigned" -> Proj(ZAdd(AV(a[1]), AV(a[2])))
         [] op = "sub_unsigned" -> Proj(ZSub(AV(a[1]), AV(a[2])))
         [] op = "carrying_add" ->
              AllForms(e, OOverflowing(T, ZAdd(ZAdd(AV(a[1]), AV(a[2])), IF a[3].b THEN ZOne ELSE ZZero)))
         [] op = "borrowing_sub" ->
              AllForms(e, OOverflowing(T, ZSub(ZSub(AV(a[1]), AV(a[2])), IF a[3].b THEN ZOne ELSE ZZero)))
         [] op = "abs_diff" -> AllForms(e, OVal(UT(T), ZAbs(ZSub(AV(a[1]), AV(a[2])))))
         [] op = "unsigned_abs" -> AllForms(e, OVal(UT(T), ZAbs(AV(a[1]))))
         [] op = "midpoint" -> AllForms(e, OVal(T, MidPoint(T, AV(a[1]), AV(a[2]))))

-----------------------------------------------------------------------------
\* C02: multiplication
C02Exp(e) ==
    LET T == Ty(e.w, e.s)
        a == e.a
        op == e.op
        Proj(x) == LET v == Force(x) IN [f \in Forms(e) |-> ByForm(f, e.mode, T, v)]
    IN CASE op = "mul" -> Proj(ZMul(AV(a[1]), AV(a[2])))
         [] op = "widening_mul" ->
              LET p == Mul(AV(a[1]).mag, AV(a[2]).mag)
              IN AllForms(e, OWide(T, LowBits(p, T.w), ShrBits(p, T.w)))
         [] op = "carrying_mul" ->
              LET p == Add(Mul(AV(a[1]).mag, AV(a[2]).mag), AV(a[3]).mag)
              IN AllForms(e, OWide(T, LowBits(p, T.w), ShrBits(p, T.w)))

-----------------------------------------------------------------------------
\* C03: division and remainder.  kind selects the rounding; part selects quotient or remainder.
DivPair(kind, x, y) == CASE kind = "trunc"  -> ZDivTrunc(x, y)
                         [] kind = "euclid" -> ZDivEuclid(x, y)
                         [] kind = "floor"  -> ZDivFloor(x, y)
                         [] kind = "ceil"   -> ZDivCeil(x, y)

\* the forms of a quotient or remainder (part = 1 or 2) with a zero-divisor and a MIN / -1 rule:
\*   zero divisor: checked -> None, every other form panics (in both build modes)
\*   MIN / -1:     the division overflows; the quotient forms are the projections of the exact
\*                 quotient 2^(w-1); the remainder forms carry value 0 with the overflow flag set;
\*                 the operator and the unsuffixed/strict forms panic in both build modes.
DivForms(e, T, kind, part) ==
    LET x == AV(e.a[1])
        y == AV(e.a[2])
    IN IF ZIsZero(y)
       THEN [f \in Forms(e) |-> IF CanonForm(f) = "checked" THEN ONone ELSE OPanic]
       ELSE LET qr == DivPair(kind, x, y)
                v  == qr[part]
                ov == IsMinNeg1(T, x, y)
            IN [ff \in Forms(e) |->
                  LET f == CanonForm(ff) IN
                  CASE f = "checked"     -> IF ov THEN ONone ELSE OSome(T, v)
                    [] f = "overflowing" -> OPair(T, Wrap(T, v), ov)
                    [] f = "wrapping"    -> OVal(T, Wrap(T, v))
                    [] f = "saturating"  -> OVal(T, Clamp(T, v))
                    [] f = "strict"      -> IF ov THEN OPanic ELSE OVal(T, v)
                    [] f = "op"          -> IF ov THEN OPanic ELSE OVal(T, v)
                    [] f = "plain"       -> IF ov THEN (IF kind = "trunc" THEN OPanic ELSE Free) ELSE OVal(T, v)]

C03Exp(e) ==
    LET T == Ty(e.w, e.s)
        a == e.a
        op == e.op
    IN CASE op = "div" -> DivForms(e, T, "trunc", 1)
         [] op = "rem" -> DivForms(e, T, "trunc", 2)
         [] op = "div_euclid" -> DivForms(e, T, "euclid", 1)
         [] op = "rem_euclid" -> DivForms(e, T, "euclid", 2)
         [] op = "div_floor" ->
              IF ZIsZero(AV(a[2])) THEN AllForms(e, OPanic)
              ELSE IF IsMinNeg1(T, AV(a[1]), AV(a[2])) THEN AllForms(e, Free)
              ELSE AllForms(e, OVal(T, ZDivFloor(AV(a[1]), AV(a[2]))[1]))
         [] op = "div_ceil" ->
              IF ZIsZero(AV(a[2])) THEN AllForms(e, OPanic)
              ELSE IF IsMinNeg1(T, AV(a[1]), AV(a[2])) THEN AllForms(e, Free)
              ELSE AllForms(e, OVal(T, ZDivCeil(AV(a[1]), AV(a[2]))[1]))
         [] op = "next_multiple_of" ->
              \* forms: "plain" (panics on zero; on overflow panics with debug assertions, wraps without)
              \*        "checked" (None on zero or overflow)
              LET x == AV(a[1])  y == AV(a[2])
              IN IF ZIsZero(y) THEN [f \in Forms(e) |-> IF f = "checked" THEN ONone ELSE OPanic]
                 ELSE IF IsMinNeg1(T, x, y) THEN AllForms(e, Free)
                 ELSE LET m == ZMul(y, ZDivCeil(x, y)[1])
                      IN [f \in Forms(e) |-> IF f = "checked" THEN OChecked(T, m) ELSE OOperator(e.mode, T, m)]

-----------------------------------------------------------------------------
\* C08: powers and logarithms.  Exponents are scalars up to 2^32-1 (BigNats).
\* |x|^e capped at 2^w (anything above is reported as Over)
\* wrapped power: square-and-multiply on patterns modulo 2^w; exponent bits from a BigNat
RECURSIVE PowModRec(_, _, _, _, _)
PowModRec(T, base, e, i, acc) ==       \* process exponent bits from bit i-1 down to 0 (MS first)
    IF i = 0 THEN acc
    ELSE LET sq == LowBits(Mul(acc, acc), T.w)
             nx == IF BitAt(e, i-1) = 1 THEN LowBits(Mul(sq, base), T.w) ELSE sq
         IN PowModRec(T, base, e, i-1, nx)
PowPat(T, x, e) == PowModRec(T, PatOf(T, x), e, BitLen(e), NOne)   \* pattern of x^e mod 2^w  (w >= 1)

IsOddNat(e) == Len(e) > 0 /\ e[1] % 2 = 1
\* is x^e representable in T, and its value when it is
PowExact(T, x, e) ==
    LET cap == Pow2(T.w)
        m   == PowCapped(x.mag, e, cap)
    IN IF m = Over THEN [over |-> TRUE, v |-> ZZero] ELSE [over |-> FALSE, v |-> Z(x.neg /\ IsOddNat(e), m)]

PowForms(e, T) ==
    LET x  == AV(e.a[1])
        ex == AN(e.a[2])
        pe == PowExact(T, x, ex)
        p  == pe.v
        fits == ~pe.over /\ InRange(T, p)
        wrapped == ValOf(T, PowPat(T, x, ex))
        negres == x.neg /\ IsOddNat(ex)
    IN [ff \in Forms(e) |->
          LET f == CanonForm(ff) IN
          CASE f = "overflowing" -> OPair(T, wrapped, ~fits)
            [] f = "checked"     -> IF fits THEN OSome(T, p) ELSE ONone
            [] f = "wrapping"    -> OVal(T, wrapped)
            [] f = "saturating"  -> IF fits THEN OVal(T, p) ELSE OVal(T, IF negres THEN MinOf(T) ELSE MaxOf(T))
            [] f = "strict"      -> IF fits THEN OVal(T, p) ELSE OPanic
            [] f = "op"          -> IF fits THEN OVal(T, p) ELSE IF e.mode = "debug" THEN OPanic ELSE OVal(T, wrapped)]

\* greatest k with b^k <= x, for x >= 1 and b >= 2 (k < w, so a native integer):
\* binary search over the monotone predicate b^k <= x.  With L = BitLen(x) and l = BitLen(b):
\* b^k < 2^(k*l), so k0 = (L-1) div l has b^k0 <= x; b^k >= 2^(k*(l-1)), so k <= (L-1) div (l-1).
RECURSIVE ILogSearch(_, _, _, _)
ILogSearch(x, b, lo, hi) ==        \* invariant b^lo <= x < b^(hi+1)
    IF lo = hi THEN lo
    ELSE LET mid == (lo + hi + 1) \div 2
         IN IF Le(Pow(b, mid), x) THEN ILogSearch(x, b, mid, hi) ELSE ILogSearch(x, b, lo, mid - 1)
ILog(x, b) == LET L == BitLen(x)  l == BitLen(b)
              IN ILogSearch(x, b, (L - 1) \div l, (L - 1) \div (l - 1))
\* the linear definition, used by MC_L2 to cross-check the search
RECURSIVE ILogRec(_, _, _, _)
ILogRec(x, b, k, p) ==            \* invariant p = b^k <= x
    LET nx == Mul(p, b) IN IF Gt(nx, x) THEN k ELSE ILogRec(x, b, k+1, nx)
ILogLinear(x, b) == ILogRec(x, b, 0, NOne)
IsILog(k, x, b) == Le(Pow(b, k), x) /\ Lt(x, Pow(b, k+1))

LogForms(e, T, x, b) ==
    LET bad == ZSign(x) <= 0 \/ ZLt(b, ZFromInt(2))
    IN [f \in Forms(e) |->
          IF f = "checked" THEN (IF bad THEN ONone ELSE OSomeNat(FromInt(ILog(x.mag, b.mag))))
          ELSE (IF bad THEN OPanic ELSE ONat(FromInt(ILog(x.mag, b.mag))))]

C08Exp(e) ==
    LET T == Ty(e.w, e.s)
        a == e.a
        op == e.op
    IN CASE op = "pow"    -> PowForms(e, T)
         [] op = "ilog"   -> LogForms(e, T, AV(a[1]), AV(a[2]))
         [] op = "ilog2"  -> LogForms(e, T, AV(a[1]), ZFromInt(2))
         [] op = "ilog10" -> LogForms(e, T, AV(a[1]), ZFromInt(10))
=============================================================================
