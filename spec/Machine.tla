------------------------------- MODULE Machine -------------------------------
(***************************************************************************)
(* M: the integer machine.  The library is sequential and its functions    *)
(* are pure, so the only state a program built on it has is the values it  *)
(* holds.  The machine makes that explicit: a register file of values of   *)
(* one type T, one action per kind of API call, a build-mode constant, and *)
(* the rule that a call which panics or returns None leaves the registers  *)
(* unchanged (`a op= b` is `*a = a op b`: the store is not reached).       *)
(*                                                                         *)
(* It is used three ways:                                                  *)
(*   - model-checked at toy widths (mc/MC_Machine): closure (TypeOK), the  *)
(*     ring homomorphism of wrapping arithmetic over whole programs        *)
(*     (RingHom, with shadow registers holding exact integers), round-trip *)
(*     laws as action properties;                                          *)
(*   - simulated at real widths (gen/GenBehaviours): TLC picks programs,   *)
(*     the history of steps with the register file after each step is      *)
(*     printed as JSON and replayed into the real library on every digit   *)
(*     type (harness/src/bin/machine.rs), comparing all registers;         *)
(*   - as the vocabulary of multi-step properties (C17 op-assign forms).   *)
(***************************************************************************)
EXTENDS UniformSem, TLC

CONSTANTS Mode,        \* "debug" | "release": whether cfg(debug_assertions) is on
          MW, MS,      \* bit width and signedness of the machine's type
          Regs,        \* register names
          Pool         \* operand pool for Load (exact integers in range) and for shift amounts (natives)

T == Ty(MW, MS)
VARIABLES reg,         \* Regs -> exact integer in the range of T
          exact,       \* shadow: Regs -> exact integer of the same program over Z (ring operations only)
          ringok,      \* shadow: Regs -> BOOLEAN, whether exact[r] is still meaningful
          out,         \* outcome of the last call
          steps        \* number of steps taken
mvars == <<reg, exact, ringok, out, steps>>

BinMethods == {"wrapping_add", "wrapping_sub", "wrapping_mul", "op_add", "op_sub", "op_mul",
               "bitand", "bitor", "bitxor", "checked_div", "checked_rem", "saturating_add", "saturating_sub", "min", "max",
               \* second generation: the operators that panic in both build modes, Option-returning forms, other roundings
               "op_div", "op_rem", "checked_add", "checked_sub", "checked_mul", "saturating_mul",
               "checked_div_euclid", "checked_rem_euclid", "midpoint"}
UnMethods  == {"wrapping_neg", "not", "swap_bytes", "reverse_bits"}
              \cup (IF MS THEN {"op_neg", "op_abs", "wrapping_abs", "signum"} ELSE {"wrapping_next_power_of_two"})
ShMethods  == {"wrapping_shl", "wrapping_shr", "rotate_left", "rotate_right", "op_shl", "op_shr"}
PowMethods == {"wrapping_pow", "checked_pow", "saturating_pow", "op_pow"}
\* composite actions: two library calls whose composition the properties fix (C10/C11/C12/C15 round trips)
RtMethods  == {"rt_str_radix", "rt_radix_be", "rt_radix_le", "rt_display_parse", "rt_be_slice", "rt_le_slice"}
FoldMethods == {"sum", "product", "sum_ref", "product_ref"}
AssignMethods == {"op_add", "op_sub", "op_mul", "bitand", "bitor", "bitxor", "op_div", "op_rem"}
RingMethods == {"wrapping_add", "wrapping_sub", "wrapping_mul", "wrapping_neg", "op_add", "op_sub", "op_mul", "op_neg"}

\* Some(v) is stored like a value, None leaves the registers alone
OptOut(v) == IF InRange(T, v) THEN OVal(T, v) ELSE ONone
\* outcome of a binary method on exact operands: a value outcome, ONone or OPanic
BinOut(m, x, y) ==
    CASE m = "wrapping_add" -> OWrapping(T, ZAdd(x, y))
      [] m = "wrapping_sub" -> OWrapping(T, ZSub(x, y))
      [] m = "wrapping_mul" -> OWrapping(T, ZMul(x, y))
      [] m = "op_add" -> OOperator(Mode, T, ZAdd(x, y))
      [] m = "op_sub" -> OOperator(Mode, T, ZSub(x, y))
      [] m = "op_mul" -> OOperator(Mode, T, ZMul(x, y))
      [] m = "saturating_add" -> OSaturating(T, ZAdd(x, y))
      [] m = "saturating_sub" -> OSaturating(T, ZSub(x, y))
      [] m = "bitand" -> OPat(T, NatOfPat(AndPat(PatDigits(T, x), PatDigits(T, y))))
      [] m = "bitor"  -> OPat(T, NatOfPat(OrPat(PatDigits(T, x), PatDigits(T, y))))
      [] m = "bitxor" -> OPat(T, NatOfPat(XorPat(PatDigits(T, x), PatDigits(T, y))))
      [] m = "checked_div" -> IF ZIsZero(y) \/ IsMinNeg1(T, x, y) THEN ONone ELSE OVal(T, ZDivTrunc(x, y)[1])
      [] m = "checked_rem" -> IF ZIsZero(y) \/ IsMinNeg1(T, x, y) THEN ONone ELSE OVal(T, ZDivTrunc(x, y)[2])
      [] m = "min" -> OVal(T, ZMin(x, y))
      [] m = "max" -> OVal(T, ZMax(x, y))
      \* `/` and `%`: zero divisor and MIN / -1 panic in both build modes (C04)
      [] m = "op_div" -> IF ZIsZero(y) \/ IsMinNeg1(T, x, y) THEN OPanic ELSE OVal(T, ZDivTrunc(x, y)[1])
      [] m = "op_rem" -> IF ZIsZero(y) \/ IsMinNeg1(T, x, y) THEN OPanic ELSE OVal(T, ZDivTrunc(x, y)[2])
      [] m = "checked_add" -> OptOut(ZAdd(x, y))
      [] m = "checked_sub" -> OptOut(ZSub(x, y))
      [] m = "checked_mul" -> OptOut(ZMul(x, y))
      [] m = "saturating_mul" -> OSaturating(T, ZMul(x, y))
      [] m = "checked_div_euclid" -> IF ZIsZero(y) \/ IsMinNeg1(T, x, y) THEN ONone ELSE OVal(T, ZDivEuclid(x, y)[1])
      [] m = "checked_rem_euclid" -> IF ZIsZero(y) \/ IsMinNeg1(T, x, y) THEN ONone ELSE OVal(T, ZDivEuclid(x, y)[2])
      [] m = "midpoint" -> OVal(T, MidPoint(T, x, y))
UnOut(m, x) ==
    CASE m = "wrapping_neg" -> OWrapping(T, ZNeg(x))
      [] m = "not" -> OPat(T, Compl(T, PatOf(T, x)))
      [] m = "swap_bytes" -> OPat(T, RevBytes(T, PatOf(T, x)))
      [] m = "reverse_bits" -> OPat(T, RevBits(T, PatOf(T, x)))
      [] m = "op_neg" -> OOperator(Mode, T, ZNeg(x))                 \* unary minus (signed types)
      [] m = "op_abs" -> OOperator(Mode, T, ZAbs(x))                 \* abs(): panics on MIN with debug assertions
      [] m = "wrapping_abs" -> OWrapping(T, ZAbs(x))
      [] m = "signum" -> OVal(T, ZFromInt(ZSign(x)))
      [] m = "wrapping_next_power_of_two" -> LET np == NextPow2(x) IN IF InRange(T, np) THEN OVal(T, np) ELSE OVal(T, ZZero)
\* shift amount k is a native integer in 0..2*MW
ShOut(m, x, k) ==
    LET inr == k < MW
        p2 == IsPow2Int(MW)
        km == k % MW
    IN CASE m = "wrapping_shl" -> IF inr \/ p2 THEN OVal(T, ShlVal(T, x, km)) ELSE AnyVal
         [] m = "wrapping_shr" -> IF inr \/ p2 THEN OVal(T, ShrVal(T, x, km)) ELSE AnyVal
         [] m = "rotate_left"  -> OPat(T, RotlPat(T, PatOf(T, x), km))
         [] m = "rotate_right" -> OPat(T, RotlPat(T, PatOf(T, x), (MW - km) % MW))
         [] m = "op_shl" -> IF inr THEN OVal(T, ShlVal(T, x, k)) ELSE IF Mode = "debug" THEN OPanic ELSE IF p2 THEN OVal(T, ShlVal(T, x, km)) ELSE AnyVal
         [] m = "op_shr" -> IF inr THEN OVal(T, ShrVal(T, x, k)) ELSE IF Mode = "debug" THEN OPanic ELSE IF p2 THEN OVal(T, ShrVal(T, x, km)) ELSE AnyVal

IsValue(o) == o.k = "val"
\* store a value outcome into register d; any other outcome leaves the register file unchanged
Store(d, o) == IF IsValue(o) THEN [reg EXCEPT ![d] = Dec(T, o.v)] ELSE reg

MInit == /\ reg = [r \in Regs |-> ZZero]
         /\ exact = [r \in Regs |-> ZZero]
         /\ ringok = [r \in Regs |-> TRUE]
         /\ out = [k |-> "none"]
         /\ steps = 0

Load(d, c) == /\ reg' = [reg EXCEPT ![d] = c]
              /\ exact' = [exact EXCEPT ![d] = c]
              /\ ringok' = [ringok EXCEPT ![d] = TRUE]
              /\ out' = OVal(T, c)
              /\ steps' = steps + 1

ExactBin(m, x, y) == CASE m \in {"wrapping_add", "op_add"} -> ZAdd(x, y)
                       [] m \in {"wrapping_sub", "op_sub"} -> ZSub(x, y)
                       [] m \in {"wrapping_mul", "op_mul"} -> ZMul(x, y)
Bin(m, d, a, b) ==
    LET o == BinOut(m, reg[a], reg[b])
    IN /\ o.k # "anyval"
       /\ out' = o
       /\ reg' = Store(d, o)
       /\ IF IsValue(o)
          THEN IF m \in RingMethods /\ ringok[a] /\ ringok[b]
               THEN exact' = [exact EXCEPT ![d] = ExactBin(m, exact[a], exact[b])] /\ ringok' = [ringok EXCEPT ![d] = TRUE]
               ELSE exact' = [exact EXCEPT ![d] = Dec(T, o.v)] /\ ringok' = [ringok EXCEPT ![d] = FALSE]
          ELSE UNCHANGED <<exact, ringok>>
       /\ steps' = steps + 1
\* `d op= b`: the op-assign trait form is the operator applied in place
Assign(m, d, b) == Bin(m, d, d, b)

Un(m, d, a) ==
    LET o == UnOut(m, reg[a])
    IN /\ out' = o
       /\ reg' = Store(d, o)
       /\ IF IsValue(o)
          THEN IF m \in {"wrapping_neg", "op_neg"} /\ ringok[a]
               THEN exact' = [exact EXCEPT ![d] = ZNeg(exact[a])] /\ ringok' = [ringok EXCEPT ![d] = TRUE]
               ELSE exact' = [exact EXCEPT ![d] = Dec(T, o.v)] /\ ringok' = [ringok EXCEPT ![d] = FALSE]
          ELSE UNCHANGED <<exact, ringok>>
       /\ steps' = steps + 1

Sh(m, d, a, k) ==
    LET o == ShOut(m, reg[a], k)
    IN /\ o.k # "anyval"              \* calls whose value the property leaves free are not part of behaviours
       /\ out' = o
       /\ reg' = Store(d, o)
       /\ IF IsValue(o)
          THEN IF m = "wrapping_shl" /\ ringok[a] /\ k < MW
               THEN exact' = [exact EXCEPT ![d] = ZMul(exact[a], ZNat(Pow2(k)))] /\ ringok' = [ringok EXCEPT ![d] = TRUE]
               ELSE exact' = [exact EXCEPT ![d] = Dec(T, o.v)] /\ ringok' = [ringok EXCEPT ![d] = FALSE]
          ELSE UNCHANGED <<exact, ringok>>
       /\ steps' = steps + 1


\* x^k for a native exponent k: wrapped value, None / saturation / panic when the exact power does not fit (C08)
PowOut(m, x, k) ==
    LET ex == FromInt(k)
        pe == PowExact(T, x, ex)
        fits == ~pe.over /\ InRange(T, pe.v)
        wrapped == ValOf(T, PowPat(T, x, ex))
        negres == x.neg /\ k % 2 = 1
    IN CASE m = "wrapping_pow" -> OVal(T, wrapped)
         [] m = "checked_pow" -> IF fits THEN OVal(T, pe.v) ELSE ONone
         [] m = "saturating_pow" -> IF fits THEN OVal(T, pe.v) ELSE OVal(T, IF negres THEN MinOf(T) ELSE MaxOf(T))
         [] m = "op_pow" -> IF fits THEN OVal(T, pe.v) ELSE IF Mode = "debug" THEN OPanic ELSE OVal(T, wrapped)
PowAct(m, d, a, k) ==
    LET o == PowOut(m, reg[a], k)
    IN /\ out' = o
       /\ reg' = Store(d, o)
       /\ IF IsValue(o) THEN exact' = [exact EXCEPT ![d] = Dec(T, o.v)] /\ ringok' = [ringok EXCEPT ![d] = FALSE]
                        ELSE UNCHANGED <<exact, ringok>>
       /\ steps' = steps + 1

\* reg[d].set_bit(i, v): the one inherent method that mutates in place (C06); i < BITS; unsigned types only
\* (BInt has bit() but no set_bit())
SetBitAct(d, i, v) ==
    LET o == OPat(T, SetBit(T, PatOf(T, reg[d]), i, v))
    IN /\ ~MS
       /\ i < MW
       /\ out' = o
       /\ reg' = Store(d, o)
       /\ exact' = [exact EXCEPT ![d] = Dec(T, o.v)] /\ ringok' = [ringok EXCEPT ![d] = FALSE]
       /\ steps' = steps + 1

\* `d <<= k`, `d >>= k`
ShAssign(m, d, k) == Sh(m, d, d, k)

\* print-then-parse and decode-of-the-encoding: whatever the text or the digits are, the composition is the identity on
\* every value (C10 + C11, C12 + C10, C15); k is the radix where one is needed.  The replayer performs both calls
\* (rt_be_slice / rt_le_slice decode the BYTES-long two's-complement encoding of the value).
RtOK(m, k) == CASE m = "rt_str_radix" -> k >= 2 /\ k <= 36
                [] m \in {"rt_radix_be", "rt_radix_le"} -> k >= 2 /\ k <= 256
                [] OTHER -> TRUE
Rt(m, d, a, k) ==
    LET o == OVal(T, reg[a])
    IN /\ RtOK(m, k)
       /\ out' = o
       /\ reg' = Store(d, o)
       /\ exact' = [exact EXCEPT ![d] = exact[a]] /\ ringok' = [ringok EXCEPT ![d] = ringok[a]]
       /\ steps' = steps + 1

\* Sum / Product over the whole register file in register order: the left fold of `+` / `*` from ZERO / ONE with the
\* operator's panic behaviour at every step (C17)
RegSeq == IF "r2" \in Regs THEN <<"r0", "r1", "r2">> ELSE <<"r0", "r1">>      \* the configurations name their registers r0, r1(, r2)
FoldAct(m, d) ==
    LET xs == [i \in 1..Len(RegSeq) |-> reg[RegSeq[i]]]
        mul == m \in {"product", "product_ref"}
        o == FoldOut(T, FoldOp(T, Mode, mul, xs, 1, IF mul THEN ZOne ELSE ZZero))
    IN /\ out' = o
       /\ reg' = Store(d, o)
       /\ IF IsValue(o) THEN exact' = [exact EXCEPT ![d] = Dec(T, o.v)] /\ ringok' = [ringok EXCEPT ![d] = FALSE]
                        ELSE UNCHANGED <<exact, ringok>>
       /\ steps' = steps + 1

MNext == \/ \E d \in Regs, c \in Pool.vals : Load(d, c)
         \/ \E m \in BinMethods, d, a, b \in Regs : Bin(m, d, a, b)
         \/ \E m \in AssignMethods, d, b \in Regs : Assign(m, d, b)
         \/ \E m \in UnMethods, d, a \in Regs : Un(m, d, a)
         \/ \E m \in ShMethods, d, a \in Regs, k \in Pool.amounts : Sh(m, d, a, k)
         \/ \E m \in {"op_shl", "op_shr"}, d \in Regs, k \in Pool.amounts : ShAssign(m, d, k)
         \/ \E m \in PowMethods, d, a \in Regs, k \in Pool.amounts : PowAct(m, d, a, k)
         \/ \E d \in Regs, i \in Pool.amounts, v \in BOOLEAN : SetBitAct(d, i, v)
         \/ \E m \in RtMethods, d, a \in Regs, k \in Pool.amounts : Rt(m, d, a, k)
         \/ \E m \in FoldMethods, d \in Regs : FoldAct(m, d)

MSpec == MInit /\ [][MNext]_mvars

-----------------------------------------------------------------------------
\* closure: no call can produce an out-of-range or non-canonical value
TypeOK == \A r \in Regs : IsInt(reg[r]) /\ InRange(T, reg[r])
\* wrapping arithmetic is the ring homomorphism Z -> Z/2^w: any program of ring operations computes the
\* reduction of the exact result of the same program (C01, C02, C05 as one multi-step statement)
RingHom == \A r \in Regs : ringok[r] => reg[r] = Wrap(T, exact[r])
\* a call that panicked or returned None changed nothing; every other call stores exactly its value
Unchanged == [][(out'.k \in {"panic", "none"}) => reg' = reg]_mvars
\* round trips as two-step action properties are checked in MC_Machine on the value level
RoundTrips ==
    \A r \in Regs : \A k \in Pool.amounts :
        LET x == reg[r]
            rl == ShOut("rotate_left", x, k)
        IN /\ ShOut("rotate_right", Dec(T, rl.v), k) = OVal(T, x)
           /\ UnOut("not", Dec(T, UnOut("not", x).v)) = OVal(T, x)
           /\ UnOut("reverse_bits", Dec(T, UnOut("reverse_bits", x).v)) = OVal(T, x)
           /\ (MW % 8 = 0 => UnOut("swap_bytes", Dec(T, UnOut("swap_bytes", x).v)) = OVal(T, x))
           /\ UnOut("wrapping_neg", Dec(T, UnOut("wrapping_neg", x).v)) = OVal(T, x)
==============================================================================
