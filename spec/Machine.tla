------------------------------- MODULE Machine -------------------------------
(***************************************************************************)
(* M: the integer machine.  The library is sequential and its functions    *)
(* are pure, so the only state a program built on it has is the values it  *)
(* holds.  The machine makes that explicit: a register file of values of   *)
(* one type T, one action per kind of API call, a build-mode constant, and *)
(* the rule that a call which panics or returns None leaves the registers  *)
(* unchanged (`a op= b` is `*a = a op b`: the store is not reached).       *)
(*                                                                         *)
(* It is used three ways:                                                  *)
(*   - model-checked at toy widths (mc/MC_Machine): closure (TypeOK), the  *)
(*     ring homomorphism of wrapping arithmetic over whole programs        *)
(*     (RingHom, with shadow registers holding exact integers), round-trip *)
(*     laws as action properties;                                          *)
(*   - simulated at real widths (gen/GenBehaviours): TLC picks programs,   *)
(*     the history of steps with the register file after each step is      *)
(*     printed as JSON and replayed into the real library on every digit   *)
(*     type (harness/src/bin/machine.rs), comparing all registers;         *)
(*   - as the vocabulary of multi-step properties (C17 op-assign forms).   *)
(***************************************************************************)
EXTENDS UniformSem, TLC

CONSTANTS Mode,        \* "debug" | "release": whether cfg(debug_assertions) is on
          MW, MS,      \* bit width and signedness of the machine's type
          Regs,        \* register names
          Pool         \* operand pool for Load (exact integers in range) and for shift amounts (natives)

T == Ty(MW, MS)
VARIABLES reg,         \* Regs -> exact integer in the range of T
          exact,       \* shadow: Regs -> exact integer of the same program over Z (ring operations only)
          ringok,      \* shadow: Regs -> BOOLEAN, whether exact[r] is still meaningful
          out,         \* outcome of the last call
          steps        \* number of steps taken
mvars == <<reg, exact, ringok, out, steps>>

BinMethods == {"wrapping_add", "wrapping_sub", "wrapping_mul", "op_add", "op_sub", "op_mul",
               "bitand", "bitor", "bitxor", "checked_div", "checked_rem", "saturating_add", "saturating_sub", "min", "max"}
UnMethods  == {"wrapping_neg", "not", "swap_bytes", "reverse_bits"} \cup (IF MW % 8 = 0 THEN {} ELSE {})
ShMethods  == {"wrapping_shl", "wrapping_shr", "rotate_left", "rotate_right", "op_shl", "op_shr"}
RingMethods == {"wrapping_add", "wrapping_sub", "wrapping_mul", "wrapping_neg", "op_add", "op_sub", "op_mul"}

\* outcome of a binary method on exact operands: a value outcome, ONone or OPanic
BinOut(m, x, y) ==
    CASE m = "wrapping_add" -> OWrapping(T, ZAdd(x, y))
      [] m = "wrapping_sub" -> OWrapping(T, ZSub(x, y))
      [] m = "wrapping_mul" -> OWrapping(T, ZMul(x, y))
      [] m = "op_add" -> OOperator(Mode, T, ZAdd(x, y))
      [] m = "op_sub" -> OOperator(Mode, T, ZSub(x, y))
      [] m = "op_mul" -> OOperator(Mode, T, ZMul(x, y))
      [] m = "saturating_add" -> OSaturating(T, ZAdd(x, y))
      [] m = "saturating_sub" -> OSaturating(T, ZSub(x, y))
      [] m = "bitand" -> OPat(T, NatOfPat(AndPat(PatDigits(T, x), PatDigits(T, y))))
      [] m = "bitor"  -> OPat(T, NatOfPat(OrPat(PatDigits(T, x), PatDigits(T, y))))
      [] m = "bitxor" -> OPat(T, NatOfPat(XorPat(PatDigits(T, x), PatDigits(T, y))))
      [] m = "checked_div" -> IF ZIsZero(y) \/ IsMinNeg1(T, x, y) THEN ONone ELSE OVal(T, ZDivTrunc(x, y)[1])
      [] m = "checked_rem" -> IF ZIsZero(y) \/ IsMinNeg1(T, x, y) THEN ONone ELSE OVal(T, ZDivTrunc(x, y)[2])
      [] m = "min" -> OVal(T, ZMin(x, y))
      [] m = "max" -> OVal(T, ZMax(x, y))
UnOut(m, x) ==
    CASE m = "wrapping_neg" -> OWrapping(T, ZNeg(x))
      [] m = "not" -> OPat(T, Compl(T, PatOf(T, x)))
      [] m = "swap_bytes" -> OPat(T, RevBytes(T, PatOf(T, x)))
      [] m = "reverse_bits" -> OPat(T, RevBits(T, PatOf(T, x)))
\* shift amount k is a native integer in 0..2*MW
ShOut(m, x, k) ==
    LET inr == k < MW
        p2 == IsPow2Int(MW)
        km == k % MW
    IN CASE m = "wrapping_shl" -> IF inr \/ p2 THEN OVal(T, ShlVal(T, x, km)) ELSE AnyVal
         [] m = "wrapping_shr" -> IF inr \/ p2 THEN OVal(T, ShrVal(T, x, km)) ELSE AnyVal
         [] m = "rotate_left"  -> OPat(T, RotlPat(T, PatOf(T, x), km))
         [] m = "rotate_right" -> OPat(T, RotlPat(T, PatOf(T, x), (MW - km) % MW))
         [] m = "op_shl" -> IF inr THEN OVal(T, ShlVal(T, x, k)) ELSE IF Mode = "debug" THEN OPanic ELSE IF p2 THEN OVal(T, ShlVal(T, x, km)) ELSE AnyVal
         [] m = "op_shr" -> IF inr THEN OVal(T, ShrVal(T, x, k)) ELSE IF Mode = "debug" THEN OPanic ELSE IF p2 THEN OVal(T, ShrVal(T, x, km)) ELSE AnyVal

IsValue(o) == o.k = "val"
\* store a value outcome into register d; any other outcome leaves the register file unchanged
Store(d, o) == IF IsValue(o) THEN [reg EXCEPT ![d] = Dec(T, o.v)] ELSE reg

MInit == /\ reg = [r \in Regs |-> ZZero]
         /\ exact = [r \in Regs |-> ZZero]
         /\ ringok = [r \in Regs |-> TRUE]
         /\ out = [k |-> "none"]
         /\ steps = 0

Load(d, c) == /\ reg' = [reg EXCEPT ![d] = c]
              /\ exact' = [exact EXCEPT ![d] = c]
              /\ ringok' = [ringok EXCEPT ![d] = TRUE]
              /\ out' = OVal(T, c)
              /\ steps' = steps + 1

ExactBin(m, x, y) == CASE m \in {"wrapping_add", "op_add"} -> ZAdd(x, y)
                       [] m \in {"wrapping_sub", "op_sub"} -> ZSub(x, y)
                       [] m \in {"wrapping_mul", "op_mul"} -> ZMul(x, y)
Bin(m, d, a, b) ==
    LET o == BinOut(m, reg[a], reg[b])
    IN /\ o.k # "anyval"
       /\ out' = o
       /\ reg' = Store(d, o)
       /\ IF IsValue(o)
          THEN IF m \in RingMethods /\ ringok[a] /\ ringok[b]
               THEN exact' = [exact EXCEPT ![d] = ExactBin(m, exact[a], exact[b])] /\ ringok' = [ringok EXCEPT ![d] = TRUE]
               ELSE exact' = [exact EXCEPT ![d] = Dec(T, o.v)] /\ ringok' = [ringok EXCEPT ![d] = FALSE]
          ELSE UNCHANGED <<exact, ringok>>
       /\ steps' = steps + 1
\* `d op= b`: the op-assign trait form is the operator applied in place
Assign(m, d, b) == Bin(m, d, d, b)

Un(m, d, a) ==
    LET o == UnOut(m, reg[a])
    IN /\ out' = o
       /\ reg' = Store(d, o)
       /\ IF m = "wrapping_neg" /\ ringok[a]
          THEN exact' = [exact EXCEPT ![d] = ZNeg(exact[a])] /\ ringok' = [ringok EXCEPT ![d] = TRUE]
          ELSE exact' = [exact EXCEPT ![d] = Dec(T, o.v)] /\ ringok' = [ringok EXCEPT ![d] = FALSE]
       /\ steps' = steps + 1

Sh(m, d, a, k) ==
    LET o == ShOut(m, reg[a], k)
    IN /\ o.k # "anyval"              \* calls whose value the property leaves free are not part of behaviours
       /\ out' = o
       /\ reg' = Store(d, o)
       /\ IF IsValue(o)
          THEN IF m = "wrapping_shl" /\ ringok[a] /\ k < MW
               THEN exact' = [exact EXCEPT ![d] = ZMul(exact[a], ZNat(Pow2(k)))] /\ ringok' = [ringok EXCEPT ![d] = TRUE]
               ELSE exact' = [exact EXCEPT ![d] = Dec(T, o.v)] /\ ringok' = [ringok EXCEPT ![d] = FALSE]
          ELSE UNCHANGED <<exact, ringok>>
       /\ steps' = steps + 1

MNext == \/ \E d \in Regs, c \in Pool.vals : Load(d, c)
         \/ \E m \in BinMethods, d, a, b \in Regs : Bin(m, d, a, b)
         \/ \E m \in {"op_add", "op_sub", "op_mul", "bitand", "bitor", "bitxor"}, d, b \in Regs : Assign(m, d, b)
         \/ \E m \in UnMethods, d, a \in Regs : Un(m, d, a)
         \/ \E m \in ShMethods, d, a \in Regs, k \in Pool.amounts : Sh(m, d, a, k)

MSpec == MInit /\ [][MNext]_mvars

-----------------------------------------------------------------------------
\* closure: no call can produce an out-of-range or non-canonical value
TypeOK == \A r \in Regs : IsInt(reg[r]) /\ InRange(T, reg[r])
\* wrapping arithmetic is the ring homomorphism Z -> Z/2^w: any program of ring operations computes the
\* reduction of the exact result of the same program (C01, C02, C05 as one multi-step statement)
RingHom == \A r \in Regs : ringok[r] => reg[r] = Wrap(T, exact[r])
\* a call that panicked or returned None changed nothing; every other call stores exactly its value
Unchanged == [][(out'.k \in {"panic", "none"}) => reg' = reg]_mvars
\* round trips as two-step action properties are checked in MC_Machine on the value level
RoundTrips ==
    \A r \in Regs : \A k \in Pool.amounts :
        LET x == reg[r]
            rl == ShOut("rotate_left", x, k)
        IN /\ ShOut("rotate_right", Dec(T, rl.v), k) = OVal(T, x)
           /\ UnOut("not", Dec(T, UnOut("not", x).v)) = OVal(T, x)
           /\ UnOut("reverse_bits", Dec(T, UnOut("reverse_bits", x).v)) = OVal(T, x)
           /\ (MW % 8 = 0 => UnOut("swap_bytes", Dec(T, UnOut("swap_bytes", x).v)) = OVal(T, x))
           /\ UnOut("wrapping_neg", Dec(T, UnOut("wrapping_neg", x).v)) = OVal(T, x)
==============================================================================
