---------------------------- MODULE MC_MoreAlgs ----------------------------
(* every input of the second batch of digit-loop models against the value-level meaning *)
EXTENDS MoreAlgs, TLC
CONSTANT CarryVals          \* "all" or "some": the third operand of carrying_mul (all arrays, or a boundary subset)
VARIABLES a, b
vars == <<a, b>>
Init == a \in Arr /\ b \in Arr
Next == UNCHANGED vars
Spec == Init /\ [][Next]_vars

Sgn(x) == IF x < 0 THEN -1 ELSE IF x > 0 THEN 1 ELSE 0
UIn(x) == x >= 0 /\ x < P2(W)
SIn(x) == x >= -P2(W - 1) /\ x < P2(W - 1)
Abs(x) == IF x < 0 THEN -x ELSE x
\* truncated division on integers (TLA+'s \div floors)
TDiv(x, y) == Sgn(x) * Sgn(y) * (Abs(x) \div Abs(y))
TRem(x, y) == x - y * TDiv(x, y)

Carries == IF CarryVals = "all" THEN Arr
           ELSE {Zero, One, [i \in Idx |-> B - 1], [i \in Idx |-> IF i = N - 1 THEN B - 1 ELSE 0], b, NotArr(a)}
MulOK ==
    /\ LET w == WideningMul(a, b) IN w[1] \in Arr /\ w[2] \in Arr /\ Val(w[2]) * P2(W) + Val(w[1]) = Val(a) * Val(b)
    /\ \A c \in Carries : LET w == CarryingMul(a, b, c) IN w[1] \in Arr /\ w[2] \in Arr /\ Val(w[2]) * P2(W) + Val(w[1]) = Val(a) * Val(b) + Val(c)
    /\ SMul(a, b) = <<FromVal(SVal(a) * SVal(b)), ~SIn(SVal(a) * SVal(b))>>
MidOK ==
    /\ UMid(a, b) = <<FromVal((Val(a) + Val(b)) \div 2), FALSE>>                       \* rounds down, never overflows
    /\ SMid(a, b) = <<FromVal(TDiv(SVal(a) + SVal(b), 2)), FALSE>>                     \* rounds toward zero, no add overflows
    /\ Val(SAbsDiff(a, b)) = Abs(SVal(a) - SVal(b))
DivOK ==
    /\ \A d \in 1..(B - 1) : LET r == DivRemDigit(a, d) IN r[3] /\ r[1] \in Arr /\ Val(r[1]) = Val(a) \div d /\ r[2] = Val(a) % d
    /\ (~IsZeroArr(b) => DivRemUnchecked(a, b) = <<FromVal(Val(a) \div Val(b)), FromVal(Val(a) % Val(b))>>)
    /\ (~IsZeroArr(b) /\ ~(a = MinPat /\ SVal(b) = -1) =>
            SDivRem(a, b) = <<FromVal(TDiv(SVal(a), SVal(b))), FromVal(TRem(SVal(a), SVal(b))), FALSE>>)
\* floor / ceiling / euclidean division on integers
FDiv(x, y) == x \div y                                   \* TLA+'s \div floors (y may be negative: use the sign-normalised form)
FloorDiv(x, y) == IF y > 0 THEN x \div y ELSE (-x) \div (-y)
CeilDiv(x, y) == -FloorDiv(-x, y)
ERem(x, y) == x - Abs(y) * FloorDiv(x, Abs(y))           \* 0 <= r < |y|
EDiv(x, y) == (x - ERem(x, y)) \div y
RoundDivOK ==
    ~IsZeroArr(b) =>
        /\ LET x == Val(a)  y == Val(b)
               nm == CeilDiv(x, y) * y
           IN /\ UDivCeil(a, b) = <<FromVal(CeilDiv(x, y)), FALSE>>
              /\ UNextMultipleOf(a, b) = <<FromVal(nm), ~UIn(nm), FALSE>>
        /\ (~(a = MinPat /\ SVal(b) = -1) =>
              LET x == SVal(a)  y == SVal(b)
                  \* the nearest multiple of y at or beyond x in the direction of y's sign
                  nm == IF y > 0 THEN CeilDiv(x, y) * y ELSE FloorDiv(x, -y) * (-y)
              IN /\ SDivFloor(a, b) = <<FromVal(FloorDiv(x, y)), FALSE>>
                 /\ SDivCeil(a, b) = <<FromVal(CeilDiv(x, y)), FALSE>>
                 /\ SDivEuclid(a, b) = <<FromVal(EDiv(x, y)), FALSE>>
                 /\ SRemEuclid(a, b) = FromVal(ERem(x, y))
                 /\ SNextMultipleOf(a, b) = <<FromVal(nm), ~SIn(nm), FALSE>>)
\* shifts by every amount up to 4W+1 (and one huge one): the flag says rhs >= BITS, the value is the shift by rhs when in
\* range and by rhs mod BITS when BITS is a power of two (otherwise the property leaves it open), and the unsafe internal
\* routine is never called outside its contract
IsP2(n) == \E k \in 0..12 : P2(k) = n
ShiftWrapOK ==
    \A rhs \in 0..(4 * W + 1) \cup {1021} :
        LET l == OvShl(a, rhs)  ru == OvShrU(a, rhs)  rs == OvShrS(a, rhs)
            inr == rhs < W
            m == rhs % W
        IN /\ l[2] = ~inr /\ ru[2] = ~inr /\ rs[2] = ~inr
           /\ l[3] /\ ru[3] /\ rs[3]
           /\ (inr \/ IsP2(W) => /\ Val(l[1]) = (Val(a) * P2(m)) % P2(W)
                                 /\ Val(ru[1]) = Val(a) \div P2(m)
                                 /\ SVal(rs[1]) = FloorDiv(SVal(a), P2(m)))
           /\ CheckedShl(a, rhs) = (IF inr THEN <<TRUE, FromVal(Val(a) * P2(rhs))>> ELSE <<FALSE, Zero>>)
           /\ Val(UnboundedShl(a, rhs)) = (IF inr THEN (Val(a) * P2(rhs)) % P2(W) ELSE 0)
           /\ SVal(UnboundedShrS(a, rhs)) = (IF inr THEN FloorDiv(SVal(a), P2(rhs)) ELSE (IF SVal(a) < 0 THEN -1 ELSE 0))
RECURSIVE Pop(_)
Pop(x) == IF x = 0 THEN 0 ELSE (x % 2) + Pop(x \div 2)
RECURSIVE Tz(_)
Tz(x) == IF x % 2 = 1 THEN 0 ELSE 1 + Tz(x \div 2)
RECURSIVE BitLenI(_)
BitLenI(n) == IF n = 0 THEN 0 ELSE 1 + BitLenI(n \div 2)
RECURSIVE RevW(_, _)
RevW(x, k) == IF k = 0 THEN 0 ELSE (x % 2) * P2(k - 1) + RevW(x \div 2, k - 1)
AllOnes == P2(W) - 1
CountOK ==
    /\ CountOnes(a) = Pop(Val(a))
    /\ TrailingZeros(a) = (IF Val(a) = 0 THEN W ELSE Tz(Val(a)))
    /\ TrailingOnes(a) = (IF Val(a) = AllOnes THEN W ELSE Tz(AllOnes - Val(a)))
    /\ LeadingOnes(a) = W - BitLenI(AllOnes - Val(a))
    /\ IsPowerOfTwo(a) = (Pop(Val(a)) = 1)
    /\ LET np == CheckedNextPow2(a)
           v == Val(a)
           want == IF v = 0 THEN 1 ELSE IF Pop(v) = 1 THEN v ELSE P2(BitLenI(v))
       IN np = (IF want < P2(W) THEN <<TRUE, FromVal(want)>> ELSE <<FALSE, Zero>>)
    /\ \A k \in 0..(W - 1) :
         /\ BitOf(a, k) = ((Val(a) \div P2(k)) % 2 = 1)
         /\ \A v \in BOOLEAN : LET s == SetBitArr(a, k, v)
                               IN s \in Arr /\ Val(s) = Val(a) - (IF BitOf(a, k) THEN P2(k) ELSE 0) + (IF v THEN P2(k) ELSE 0)
    /\ Val(ReverseBits(a)) = RevW(Val(a), W)
    /\ Val(SwapBytes(a)) = RevGroups(Val(a), ByteBits, W \div ByteBits)
\* the text is the numeral of the value in base 2^rbits, digit by digit
FmtOK == \A rbits \in {r \in 1..DBits : DBits % r = 0} : FmtDigits(a, rbits) = NumeralRec(Val(a), P2(rbits))
\* primitive widths: as in the code, either the digit is wider than the primitive or the primitive is a whole number of digits
PrimBits == {ib \in 1..12 : (DBits > ib) \/ (ib % DBits = 0)}
ConvOK ==
    /\ \A ib \in PrimBits :
        /\ TryFromBuint(a, ib, FALSE) = (IF Val(a) < P2(ib) THEN <<TRUE, Val(a)>> ELSE <<FALSE, 0>>)
        /\ (ib >= 2 => TryFromBuint(a, ib, TRUE) = (IF Val(a) < P2(ib - 1) THEN <<TRUE, Val(a)>> ELSE <<FALSE, 0>>))
        /\ (ib >= 2 => TryFromBint(a, ib) = (IF SVal(a) >= -P2(ib - 1) /\ SVal(a) < P2(ib - 1) THEN <<TRUE, SVal(a) % P2(ib)>> ELSE <<FALSE, 0>>))
    /\ \A tb \in 2..(W + 3) :
        /\ UFromU(a, tb) = (Val(a) < P2(tb))
        /\ UFromI(a, tb) = (SVal(a) >= 0 /\ SVal(a) < P2(tb))
        /\ IFromU(a, tb) = (Val(a) < P2(tb - 1))
        /\ IFromI(a, tb) = (SVal(a) >= -P2(tb - 1) /\ SVal(a) < P2(tb - 1))
AlgsOK == MulOK /\ MidOK /\ DivOK /\ RoundDivOK /\ ShiftWrapOK /\ CountOK /\ FmtOK /\ ConvOK
\* vacuity probes (must be refuted): the rare paths exist at this size
NoCarryOut == ~(\E c \in Carries : UAdd(WideningMul(a, b)[1], c)[2])          \* carrying_mul's low half overflows
NoMinProduct == ~(SMul(a, b)[1] = MinPat /\ ~SMul(a, b)[2] /\ IsNeg(a) # IsNeg(b))   \* the product is exactly MIN
NoMidFix == ~(IsNeg(SMid(a, b)[1]) /\ BitXor(a, b)[0] % 2 = 1)                \* the signed midpoint fix-up is taken
=============================================================================
