SPECIFICATION Spec
CONSTANTS DBits = 2
          N = 4
          ByteBits = 1
          CarryVals = "some"
INVARIANTS MulOK MidOK DivOK RoundDivOK ShiftWrapOK CountOK FmtOK ConvOK
CHECK_DEADLOCK FALSE
