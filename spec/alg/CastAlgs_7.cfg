SPECIFICATION Spec
CONSTANTS SB = 2
          M = 3
          TB = 8
          N = 1
INVARIANT CastOK
CHECK_DEADLOCK FALSE
