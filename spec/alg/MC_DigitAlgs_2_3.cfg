SPECIFICATION Spec
CONSTANTS DBits = 2
          N = 3
INVARIANT AlgsOK
CHECK_DEADLOCK FALSE
