SPECIFICATION Spec
CONSTANTS ByteBits = 2
          DBy = 4
          N = 1
          MaxLen = 9
INVARIANT SliceOK
CHECK_DEADLOCK FALSE
