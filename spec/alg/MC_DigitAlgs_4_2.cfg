SPECIFICATION Spec
CONSTANTS DBits = 4
          N = 2
INVARIANT AlgsOK
CHECK_DEADLOCK FALSE
