SPECIFICATION Spec
CONSTANTS EB = 3
          MD = 3
          Wd = 10
          Old = FALSE
INVARIANTS Correct NoLostBits
CHECK_DEADLOCK FALSE
