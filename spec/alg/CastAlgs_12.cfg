SPECIFICATION Spec
CONSTANTS SB = 1
          M = 5
          TB = 4
          N = 2
INVARIANT CastOK
CHECK_DEADLOCK FALSE
