SPECIFICATION Spec
CONSTANTS Wd = 6
          MaxE = 15
INVARIANTS NoSignFlip
CHECK_DEADLOCK FALSE
