------------------------------- MODULE NumAlgs -------------------------------
(***************************************************************************)
(* L3: code-shaped state machines of two loops of src/buint/numtraits.rs,  *)
(* at a toy bit width Wd (all arithmetic is on integers below 2^Wd, and an *)
(* intermediate result that does not fit is an arithmetic overflow -- a    *)
(* panic with debug assertions):                                           *)
(*   Root   Roots::nth_root: guess = 2^(bits/n + 1); fixpoint of the       *)
(*          Newton step  s -> ((n-1)*s + x / s^(n-1)) / n                  *)
(*          (first loop ascends while s < f(s), capping at 2^max_bits;     *)
(*          second loop descends while s > f(s)); with the repaired        *)
(*          checked power (Fixed = TRUE) or the pinned tree's s.pow(n-1)   *)
(*   Gcd    Integer::gcd: binary gcd with trailing-zero normalisation      *)
(* Checked for every input: no intermediate overflow, the result is the    *)
(* integer root / the gcd, and the loops terminate (liveness under WF).    *)
(***************************************************************************)
EXTENDS Integers, FiniteSets, TLC
CONSTANTS Wd, Fixed

RECURSIVE P2(_)
P2(k) == IF k = 0 THEN 1 ELSE 2 * P2(k - 1)
Max == P2(Wd) - 1
RECURSIVE BitLen(_)
BitLen(n) == IF n = 0 THEN 0 ELSE 1 + BitLen(n \div 2)
RECURSIVE Tz(_)
Tz(n) == IF n % 2 = 1 THEN 0 ELSE 1 + Tz(n \div 2)
\* power with overflow detection: <<value, overflowed>>
RECURSIVE PowOv(_, _)
PowOv(b, e) == IF e = 0 THEN <<1, FALSE>>
               ELSE LET r == PowOv(b, e - 1)
                        v == r[1] * b
                    IN IF r[2] \/ v > Max THEN <<0, TRUE>> ELSE <<v, FALSE>>

VARIABLES alg, x, n,          \* which algorithm, its inputs (for Gcd: x and n are the two operands)
          pc, s, xn, maxbits,  \* Root: current iterate, next iterate, cap on the bit length
          a, b, atz, btz,      \* Gcd registers
          res, ovf             \* result; whether an intermediate overflow occurred
vars == <<alg, x, n, pc, s, xn, maxbits, a, b, atz, btz, res, ovf>>

\* one Newton step f(s) for the n-th root of x; sets the overflow flag when a fixed-width intermediate does not fit
F(sv) == LET p == PowOv(sv, n - 1)
             q == IF p[2] THEN (IF Fixed THEN 0 ELSE -1) ELSE x \div p[1]       \* -1 marks the pinned tree's overflow
             t == sv * (n - 1) + (IF q < 0 THEN 0 ELSE q)
         IN <<t \div n, q < 0 \/ sv * (n - 1) > Max \/ t > Max>>

Init == \/ /\ alg = "root" /\ x \in 2..Max /\ n \in 4..(Wd + 2)
           /\ pc = "r0" /\ s = 0 /\ xn = 0 /\ maxbits = 0
           /\ a = 0 /\ b = 0 /\ atz = 0 /\ btz = 0 /\ res = -1 /\ ovf = FALSE
        \/ /\ alg = "gcd" /\ x \in 0..Max /\ n \in 0..Max
           /\ pc = "g0" /\ s = 0 /\ xn = 0 /\ maxbits = 0
           /\ a = 0 /\ b = 0 /\ atz = 0 /\ btz = 0 /\ res = -1 /\ ovf = FALSE

\* ---- nth_root (n >= 4; x >= 2: the zero/one shortcut and the degree 1..3 cases are separate code)
R0 == /\ pc = "r0"
      /\ IF BitLen(x) <= n
         THEN res' = 1 /\ pc' = "done" /\ UNCHANGED <<s, xn, maxbits, ovf>>
         ELSE LET mb == BitLen(x) \div n + 1
                  g == P2(mb)
                  f == F(g)
              IN /\ maxbits' = mb /\ s' = g /\ xn' = f[1] /\ ovf' = (ovf \/ f[2] \/ g > Max)
                 /\ pc' = "up" /\ res' = res
      /\ UNCHANGED <<alg, x, n, a, b, atz, btz>>
Up == /\ pc = "up"
      /\ IF s < xn
         THEN LET s2 == IF BitLen(xn) > maxbits THEN P2(maxbits) ELSE xn
                  f == F(s2)
              IN s' = s2 /\ xn' = f[1] /\ ovf' = (ovf \/ f[2]) /\ pc' = "up"
         ELSE pc' = "down" /\ UNCHANGED <<s, xn, ovf>>
      /\ UNCHANGED <<alg, x, n, maxbits, a, b, atz, btz, res>>
Down == /\ pc = "down"
        /\ IF s > xn
           THEN LET f == F(xn) IN s' = xn /\ xn' = f[1] /\ ovf' = (ovf \/ f[2]) /\ pc' = "down" /\ res' = res
           ELSE res' = s /\ pc' = "done" /\ UNCHANGED <<s, xn, ovf>>
        /\ UNCHANGED <<alg, x, n, maxbits, a, b, atz, btz>>

\* ---- binary gcd
G0 == /\ pc = "g0"
      /\ IF x = 0 THEN res' = n /\ pc' = "done" /\ UNCHANGED <<a, b, atz, btz>>
         ELSE IF n = 0 THEN res' = x /\ pc' = "done" /\ UNCHANGED <<a, b, atz, btz>>
         ELSE LET ta == Tz(x)  tb == Tz(n)
              IN /\ a' = x \div P2(ta) /\ b' = n \div P2(tb)
                 /\ atz' = (IF tb > ta THEN tb ELSE ta) /\ btz' = (IF tb > ta THEN ta ELSE tb)     \* swap so that a_tz >= b_tz
                 /\ pc' = "gl" /\ res' = res
      /\ UNCHANGED <<alg, x, n, s, xn, maxbits, ovf>>
GL == /\ pc = "gl"
      /\ LET a1 == IF a < b THEN b ELSE a
             b1 == IF a < b THEN a ELSE b
             d == a1 - b1
         IN IF d = 0
            THEN /\ res' = b1 * P2(btz) /\ ovf' = (ovf \/ b1 * P2(btz) > Max) /\ pc' = "done" /\ a' = d /\ b' = b1
            ELSE /\ a' = d \div P2(Tz(d)) /\ b' = b1 /\ pc' = "gl" /\ res' = res /\ ovf' = ovf
      /\ UNCHANGED <<alg, x, n, s, xn, maxbits, atz, btz>>

Done == pc = "done" /\ UNCHANGED vars
Next == R0 \/ Up \/ Down \/ G0 \/ GL \/ Done
Spec == Init /\ [][Next]_vars /\ WF_vars(R0 \/ Up \/ Down \/ G0 \/ GL)

\* ---- properties
IsRoot(r) == LET lo == PowOv(r, n)  hi == PowOv(r + 1, n)
             IN ~lo[2] /\ lo[1] <= x /\ (hi[2] \/ hi[1] > x)
RECURSIVE GcdRef(_, _)
GcdRef(p, q) == IF q = 0 THEN p ELSE GcdRef(q, p % q)
NoOverflow == ~ovf
Correct == pc = "done" => IF alg = "root" THEN IsRoot(res) ELSE res = GcdRef(x, n)
Terminates == <>(pc = "done")
==============================================================================
