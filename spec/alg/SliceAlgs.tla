------------------------------ MODULE SliceAlgs ------------------------------
(***************************************************************************)
(* L3: code-shaped model of from_be_slice / from_le_slice                  *)
(* (src/buint/endian.rs, src/bint/endian.rs with its set_digit! macro):    *)
(* whole digits, a trailing partial digit, excess digits that must be pure *)
(* zero / sign padding, the sign test on digit N-1.  A "byte" has ByteBits *)
(* bits here (2 in the toy configurations), a digit DBy bytes, a value N   *)
(* digits.  Checked for EVERY slice up to MaxLen bytes against the         *)
(* value-level meaning of property C15: Some(v) exactly when the slice,    *)
(* read as an unsigned / two's-complement number, is representable.        *)
(***************************************************************************)
EXTENDS Integers, Sequences, FiniteSets, TLC
CONSTANTS ByteBits, DBy, N, MaxLen

RECURSIVE P2(_)
P2(k) == IF k = 0 THEN 1 ELSE 2 * P2(k - 1)
BB == P2(ByteBits)                     \* values of a byte
DBits == ByteBits * DBy
DMax == P2(DBits) - 1
W == DBits * N
None == [k |-> "none"]
SomeV(v) == [k |-> "some", v |-> v]
RECURSIVE ValLE(_, _)
ValLE(s, i) == IF i > Len(s) THEN 0 ELSE s[i] + BB * ValLE(s, i + 1)       \* little-endian byte string -> number
Reverse(s) == [i \in 1..Len(s) |-> s[Len(s) + 1 - i]]
RECURSIVE ValDigits(_, _)
ValDigits(f, i) == IF i >= N THEN 0 ELSE f[i] + P2(DBits) * ValDigits(f, i + 1)

\* a digit from DBy bytes given least-significant first; missing bytes are `pad`
DigitLE(bytes, pad) == ValLE([j \in 1..DBy |-> IF j <= Len(bytes) THEN bytes[j] ELSE pad], 1)

\* ---- unsigned, little-endian view (the big-endian function indexes the same bytes from the other end)
RECURSIVE ULoop(_, _, _, _)
ULoop(le, i, ndig, out) ==        \* ndig = number of digits the slice provides (the last may be partial)
    IF i = ndig THEN SomeV(ValDigits(out, 0))
    ELSE LET lo == i * DBy + 1
             hi == IF (i + 1) * DBy <= Len(le) THEN (i + 1) * DBy ELSE Len(le)
             d == DigitLE(SubSeq(le, lo, hi), 0)
         IN IF i < N THEN ULoop(le, i + 1, ndig, [out EXCEPT ![i] = d])
            ELSE IF d # 0 THEN None
            ELSE ULoop(le, i + 1, ndig, out)
UFromLE(le) == LET ndig == (Len(le) + DBy - 1) \div DBy
               IN ULoop(le, 0, ndig, [i \in 0..(N - 1) |-> 0])

\* ---- signed: set_digit!
RECURSIVE SLoop(_, _, _, _, _, _)
SLoop(le, i, ndig, neg, sb, out) ==
    IF i = ndig THEN SomeV(ValDigits(out, 0))
    ELSE LET lo == i * DBy + 1
             hi == IF (i + 1) * DBy <= Len(le) THEN (i + 1) * DBy ELSE Len(le)
             d == DigitLE(SubSeq(le, lo, hi), IF neg THEN BB - 1 ELSE 0)
             dneg == d >= P2(DBits - 1)
         IN IF i = N - 1 THEN (IF dneg = neg THEN SLoop(le, i + 1, ndig, neg, sb, [out EXCEPT ![i] = d]) ELSE None)
            ELSE IF i < N THEN SLoop(le, i + 1, ndig, neg, sb, [out EXCEPT ![i] = d])
            ELSE IF d # sb THEN None
            ELSE SLoop(le, i + 1, ndig, neg, sb, out)
SFromLE(le) ==
    IF Len(le) = 0 THEN SomeV(0)
    ELSE LET neg == le[Len(le)] >= BB \div 2
             sb == IF neg THEN DMax ELSE 0
             ndig == (Len(le) + DBy - 1) \div DBy
         IN SLoop(le, 0, ndig, neg, sb, [i \in 0..(N - 1) |-> sb])

VARIABLE sl
Init == sl \in UNION {[1..n -> 0..(BB - 1)] : n \in 0..MaxLen}
Next == UNCHANGED sl
Spec == Init /\ [][Next]_sl

\* value-level meaning: sl is the slice in little-endian order
UMeaning == LET v == ValLE(sl, 1) IN IF v < P2(W) THEN SomeV(v) ELSE None
SMeaning == IF Len(sl) = 0 THEN SomeV(0)
            ELSE LET u == ValLE(sl, 1)
                     v == IF sl[Len(sl)] >= BB \div 2 THEN u - P2(ByteBits * Len(sl)) ELSE u
                 IN IF v >= -P2(W - 1) /\ v < P2(W - 1) THEN SomeV(v % P2(W)) ELSE None      \* the pattern of v
SliceOK == UFromLE(sl) = UMeaning /\ SFromLE(sl) = SMeaning
==============================================================================
