SPECIFICATION Spec
CONSTANTS DBits = 2
          N = 4
INVARIANTS NoCapped
CHECK_DEADLOCK FALSE
