SPECIFICATION Spec
CONSTANTS DBits = 2
          N = 4
INVARIANTS NoAddBack
CHECK_DEADLOCK FALSE
