SPECIFICATION Spec
CONSTANTS EB = 3
          MD = 3
          Wd = 8
          Old = TRUE
INVARIANTS Correct
CHECK_DEADLOCK FALSE
