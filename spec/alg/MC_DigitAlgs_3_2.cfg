SPECIFICATION Spec
CONSTANTS DBits = 3
          N = 2
INVARIANT AlgsOK
CHECK_DEADLOCK FALSE
