SPECIFICATION Spec
CONSTANTS DBits = 3
          N = 3
          Radices = {3, 5, 6, 7}
          MaxLen = 7
INVARIANT AlgsOK
CHECK_DEADLOCK FALSE
