---------------------------- MODULE MC_RadixAlgs ----------------------------
(* every digit string up to MaxLen over the alphabet 0..radix (radix = an invalid digit), both digit orders,
   and every value below 2^W for the output routines *)
EXTENDS RadixAlgs
CONSTANTS Log2R, MaxLen, OutRadices
VARIABLES ds, x
vars == <<ds, x>>
R == P2(Log2R)
Strings == UNION {[1..n -> 0..R] : n \in 1..MaxLen}
Init == \/ (ds \in Strings /\ x = 0)
        \/ (ds = <<>> /\ x \in 0..(Cap - 1))
Next == UNCHANGED vars
Spec == Init /\ [][Next]_vars

\* ds is most significant first; the little-endian entry point receives the reversed list
ParseOK    == Len(ds) > 0 => /\ ParsePow2(ds, TRUE, Log2R) \in Allowed(ds, R)
                             /\ ParsePow2(Reverse(ds), FALSE, Log2R) \in Allowed(ds, R)
ParseOldOK == Len(ds) > 0 => /\ ParsePow2Old(ds, TRUE, Log2R) \in Allowed(ds, R)
                             /\ ParsePow2Old(Reverse(ds), FALSE, Log2R) \in Allowed(ds, R)
OutOK == Len(ds) = 0 /\ x > 0 =>
            \A r \in OutRadices :
               LET bits == BitLen(r) - 1
                   pow2 == P2(bits) = r
               IN IF pow2 /\ DBits % bits = 0 THEN ToBitwiseLe(x, bits) = Canon(x, r)
                  ELSE IF pow2 THEN ToInexactBitwiseLe(x, bits) = Canon(x, r)
                  ELSE ToRadixDigitsLe(x, r) = Canon(x, r)
\* the hex / binary formatting loop yields the canonical numeral of the pattern (C12)
FmtOK == Len(ds) = 0 =>
            \A bits \in {1, 2, 4} : DBits % bits = 0 =>
                FmtDigits(x, bits) = (IF x = 0 THEN <<0>> ELSE Reverse(Canon(x, P2(bits))))
AlgsOK == ParseOK /\ OutOK /\ FmtOK
=============================================================================
