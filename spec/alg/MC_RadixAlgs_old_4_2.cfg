SPECIFICATION Spec
CONSTANTS DBits = 4
          N = 2
          Log2R = 2
          MaxLen = 6
          OutRadices = {2}
INVARIANT ParseOldOK
CHECK_DEADLOCK FALSE
