SPECIFICATION Spec
CONSTANTS SB = 8
          M = 1
          TB = 2
          N = 3
INVARIANT CastOK
CHECK_DEADLOCK FALSE
