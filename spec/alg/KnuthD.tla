------------------------------- MODULE KnuthD -------------------------------
(***************************************************************************)
(* L3: code-shaped model of bnum's multi-digit division                    *)
(* (src/buint/div.rs, basecase_div_rem = Knuth's Algorithm D, and its      *)
(* dispatch in src/buint/checked.rs, div_rem_unchecked), parametric in the *)
(* digit width DBits and the digit count N.  One action per step of the    *)
(* Rust code; digits are native integers 0..B-1 and every digit-valued     *)
(* assignment is range-checked (DigitsOK), which models the arithmetic-    *)
(* overflow panics of a debug build inside the algorithm.                  *)
(*                                                                         *)
(* Checked for EVERY dividend/divisor pair at the configured size:         *)
(*   Correct      at Done, a = q*b + r and r < b                           *)
(*   QHatBound    at D4 the estimate is the true quotient digit or one more*)
(*   DigitsOK     no digit leaves 0..B-1, no decrement underflows          *)
(*   termination  (<>Done under weak fairness; the loop counter decreases) *)
(* and, for vacuity, that the rare branches (first and second correction,  *)
(* the capped estimate B-1, add-back) are reachable at suitable sizes.     *)
(***************************************************************************)
EXTENDS Integers, Sequences, FiniteSets, TLC
CONSTANTS DBits, N

RECURSIVE P2(_)
P2(k) == IF k = 0 THEN 1 ELSE 2 * P2(k - 1)
B == P2(DBits)
Idx == 0..(N - 1)
Digits == 0..(B - 1)
Arr == [Idx -> Digits]

RECURSIVE ValRec(_, _, _)
ValRec(f, i, hi) == IF i > hi THEN 0 ELSE f[i] + B * ValRec(f, i + 1, hi)
Val(f) == ValRec(f, 0, N - 1)                 \* value of an N-digit array
ValU(f) == ValRec(f, 0, N)                    \* value of the (N+1)-digit remainder register
RECURSIVE LastIdxRec(_, _)
LastIdxRec(f, i) == IF i = 0 THEN 0 ELSE IF f[i] # 0 THEN i ELSE LastIdxRec(f, i - 1)
LastIdx(f) == LastIdxRec(f, N - 1)
RECURSIVE Lz(_, _)
Lz(d, k) == IF k = 0 THEN 0 ELSE IF d >= P2(k - 1) THEN 0 ELSE 1 + Lz(d, k - 1)    \* leading zeros of a digit
LeadingZeros(d) == IF d = 0 THEN DBits ELSE DBits - (CHOOSE k \in 1..DBits : P2(k - 1) <= d /\ d < P2(k))

VARIABLES a, b,            \* inputs (N digits each, little endian)
          pc,
          n, m, shift,     \* significant digits of the divisor, quotient digits - 1, normalisation shift
          v,               \* normalised divisor (N digits)
          u,               \* remainder register (N + 1 digits: `first` and `rest` of the Rust struct)
          q,               \* quotient digits
          j, qhat, rhat,   \* loop index, quotient-digit estimate, remainder of the estimate
          borrow,          \* borrow out of D4
          path             \* set of rare branches taken (observation only)
vars == <<a, b, pc, n, m, shift, v, u, q, j, qhat, rhat, borrow, path>>

\* dispatch of div_rem_unchecked: only dividend > divisor with a divisor of at least two digits reaches Algorithm D
Init == /\ a \in Arr /\ b \in Arr
        /\ Val(a) > Val(b) /\ LastIdx(b) >= 1
        /\ pc = "D1"
        /\ n = 0 /\ m = 0 /\ shift = 0
        /\ v = [i \in Idx |-> 0] /\ u = [i \in 0..N |-> 0] /\ q = [i \in Idx |-> 0]
        /\ j = 0 /\ qhat = 0 /\ rhat = 0 /\ borrow = FALSE /\ path = {}

\* D1: normalise.  v = b << shift;  u = Remainder::new(a, shift) = a << shift in N+1 digits
D1 == /\ pc = "D1"
      /\ LET nn == LastIdx(b) + 1
             sh == LeadingZeros(b[nn - 1])
             vv == Val(b) * P2(sh)
             uu == Val(a) * P2(sh)
         IN /\ n' = nn
            /\ m' = LastIdx(a) + 1 - nn
            /\ shift' = sh
            /\ v' = [i \in Idx |-> (vv \div P2(DBits * i)) % B]
            /\ u' = [i \in 0..N |-> (uu \div P2(DBits * i)) % B]
            /\ j' = LastIdx(a) + 1 - nn + 1          \* D2: j = m + 1
      /\ pc' = "D7"
      /\ UNCHANGED <<a, b, q, qhat, rhat, borrow, path>>

\* loop head: `while j > 0 { j -= 1; ...`
D7 == /\ pc = "D7"
      /\ IF j > 0 THEN j' = j - 1 /\ pc' = "D3" ELSE j' = j /\ pc' = "Done"
      /\ UNCHANGED <<a, b, n, m, shift, v, u, q, qhat, rhat, borrow, path>>

\* D3: estimate the quotient digit from the top two remainder digits and the top divisor digit
D3 == /\ pc = "D3"
      /\ LET ujn == u[j + n]
         IN IF ujn < v[n - 1]
            THEN LET num == ujn * B + u[j + n - 1]
                 IN /\ qhat' = num \div v[n - 1]
                    /\ rhat' = num % v[n - 1]
                    /\ pc' = "D3a"
                    /\ path' = path
            ELSE /\ qhat' = B - 1 /\ rhat' = 0 /\ pc' = "D4" /\ path' = path \cup {"capped"}
      /\ UNCHANGED <<a, b, n, m, shift, v, u, q, j, borrow>>

\* first correction: q_hat * v[n-2] > (r_hat, u[j+n-2])
D3a == /\ pc = "D3a"
       /\ IF qhat * v[n - 2] > rhat * B + u[j + n - 2]
          THEN /\ qhat' = qhat - 1
               /\ IF rhat + v[n - 1] < B                  \* r_hat.checked_add(v_n_m1) is Some
                  THEN rhat' = rhat + v[n - 1] /\ pc' = "D3b"
                  ELSE rhat' = rhat /\ pc' = "D4"
               /\ path' = path \cup {"corr1"}
          ELSE /\ qhat' = qhat /\ rhat' = rhat /\ pc' = "D4" /\ path' = path
       /\ UNCHANGED <<a, b, n, m, shift, v, u, q, j, borrow>>

\* second correction
D3b == /\ pc = "D3b"
       /\ IF qhat * v[n - 2] > rhat * B + u[j + n - 2]
          THEN qhat' = qhat - 1 /\ path' = path \cup {"corr2"}
          ELSE qhat' = qhat /\ path' = path
       /\ pc' = "D4"
       /\ UNCHANGED <<a, b, n, m, shift, v, u, q, j, rhat, borrow>>

\* D4: u[j .. j+n] -= q_hat * v   (n + 1 digits, wrapping; the borrow out is the overflow flag)
Win(f, lo, len) == ValRec([i \in 0..(len - 1) |-> f[lo + i]], 0, len - 1)
D4 == /\ pc = "D4"
      /\ LET win == Win(u, j, n + 1)
             prod == qhat * Win(v, 0, n)
             modulus == P2(DBits * (n + 1))
             diff == (win - prod) % modulus
         IN /\ borrow' = (win < prod)
            /\ u' = [i \in 0..N |-> IF i >= j /\ i <= j + n THEN (diff \div P2(DBits * (i - j))) % B ELSE u[i]]
      /\ pc' = "D5"
      /\ UNCHANGED <<a, b, n, m, shift, v, q, j, qhat, rhat, path>>

\* D5/D6: add back when the subtraction borrowed
D5 == /\ pc = "D5"
      /\ IF borrow
         THEN LET win == Win(u, j, n + 1)
                  modulus == P2(DBits * (n + 1))
                  sum == (win + Win(v, 0, n)) % modulus
              IN /\ qhat' = qhat - 1
                 /\ u' = [i \in 0..N |-> IF i >= j /\ i <= j + n THEN (sum \div P2(DBits * (i - j))) % B ELSE u[i]]
                 /\ path' = path \cup {"addback"}
         ELSE qhat' = qhat /\ u' = u /\ path' = path
      /\ pc' = "D6"
      /\ UNCHANGED <<a, b, n, m, shift, v, q, j, rhat, borrow>>

\* store the quotient digit, back to the loop head
D6 == /\ pc = "D6"
      /\ q' = [q EXCEPT ![j] = qhat]
      /\ pc' = "D7"
      /\ UNCHANGED <<a, b, n, m, shift, v, u, j, qhat, rhat, borrow, path>>

Done == pc = "Done" /\ UNCHANGED vars

Next == D1 \/ D7 \/ D3 \/ D3a \/ D3b \/ D4 \/ D5 \/ D6 \/ Done
Spec == Init /\ [][Next]_vars /\ WF_vars(D1 \/ D7 \/ D3 \/ D3a \/ D3b \/ D4 \/ D5 \/ D6)

-----------------------------------------------------------------------------
\* result: quotient q, remainder u >> shift (low N digits)
Rem == ValU(u) \div P2(shift)

TypeOK == /\ q \in Arr /\ v \in Arr /\ u \in [0..N -> Digits]
          /\ qhat \in 0..(B - 1) /\ rhat \in 0..(2 * B)      \* q_hat is a digit: `q_hat -= 1` never underflows
          /\ j \in 0..N
DigitsOK == TypeOK
Correct == pc = "Done" => /\ Val(q) * Val(b) + Rem = Val(a)
                          /\ Rem < Val(b)
                          /\ ValU(u) % P2(shift) = 0
\* at D4 the estimate is the true quotient digit of the current window, or one more
QHatBound == pc = "D4" => LET qt == Win(u, j, n + 1) \div Win(v, 0, n) IN qhat = qt \/ qhat = qt + 1
\* the remainder register never exceeds the window invariant of Algorithm D
WindowInv == pc = "D3" => Win(u, j, n + 1) < B * Win(v, 0, n)
Terminates == <>(pc = "Done")

\* vacuity probes: each of these is expected to be VIOLATED (a witness exists) at suitable sizes
NoCorr1   == "corr1" \notin path
NoCorr2   == "corr2" \notin path
NoCapped  == "capped" \notin path
NoAddBack == "addback" \notin path
=============================================================================
