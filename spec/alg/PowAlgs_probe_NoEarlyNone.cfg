SPECIFICATION Spec
CONSTANTS Wd = 6
          MaxE = 15
INVARIANTS NoEarlyNone
CHECK_DEADLOCK FALSE
