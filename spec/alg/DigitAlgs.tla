------------------------------ MODULE DigitAlgs ------------------------------
(***************************************************************************)
(* L3: code-shaped models of bnum's digit loops, parametric in the digit   *)
(* width DBits and the digit count N; values are arrays 0..N-1 of native   *)
(* digits.  Each operator follows the loop of the Rust function it is      *)
(* named after (file and function in the comment); MC_DigitAlgs checks     *)
(* every one against the value-level meaning for EVERY input at toy sizes. *)
(***************************************************************************)
EXTENDS Integers, Sequences, FiniteSets
CONSTANTS DBits, N

RECURSIVE P2(_)
P2(k) == IF k = 0 THEN 1 ELSE 2 * P2(k - 1)
B == P2(DBits)
W == DBits * N
Idx == 0..(N - 1)
Digits == 0..(B - 1)
Arr == [Idx -> Digits]
Zero == [i \in Idx |-> 0]
RECURSIVE ValRec(_, _)
ValRec(f, i) == IF i >= N THEN 0 ELSE f[i] + B * ValRec(f, i + 1)
Val(f) == ValRec(f, 0)                                  \* unsigned value
SVal(f) == IF f[N - 1] >= B \div 2 THEN Val(f) - P2(W) ELSE Val(f)    \* two's-complement value
FromVal(x) == [i \in Idx |-> ((x % P2(W)) \div P2(DBits * i)) % B]     \* pattern of x mod 2^W
SD(d) == IF d >= B \div 2 THEN d - B ELSE d             \* a digit read as a signed digit

\* src/digit.rs: carrying_add / borrowing_sub on digits
CarryAdd(x, y, c) == LET s == x + y + (IF c THEN 1 ELSE 0) IN <<s % B, s >= B>>
BorrowSub(x, y, c) == LET d == x - y - (IF c THEN 1 ELSE 0) IN <<d % B, d < 0>>
\* src/digit.rs: carrying_add_signed / borrowing_sub_signed: (wrapped signed sum, o1 != o2)
CarryAddSigned(x, y, c) ==
    LET s1 == SD(x) + SD(y)
        o1 == s1 < -(B \div 2) \/ s1 >= B \div 2
        w1 == SD(s1 % B)
        s2 == w1 + (IF c THEN 1 ELSE 0)
        o2 == c /\ s2 >= B \div 2
    IN <<s2 % B, o1 # o2>>
BorrowSubSigned(x, y, c) ==
    LET s1 == SD(x) - SD(y)
        o1 == s1 < -(B \div 2) \/ s1 >= B \div 2
        w1 == SD(s1 % B)
        s2 == w1 - (IF c THEN 1 ELSE 0)
        o2 == c /\ s2 < -(B \div 2)
    IN <<s2 % B, o1 # o2>>

\* src/buint/overflowing.rs: overflowing_add / overflowing_sub (ripple over all N digits)
RECURSIVE AddLoop(_, _, _, _, _)
AddLoop(a, b, i, c, out) == IF i = N THEN <<out, c>>
                            ELSE LET r == CarryAdd(a[i], b[i], c) IN AddLoop(a, b, i + 1, r[2], [out EXCEPT ![i] = r[1]])
UAdd(a, b) == AddLoop(a, b, 0, FALSE, Zero)
RECURSIVE SubLoop(_, _, _, _, _)
SubLoop(a, b, i, c, out) == IF i = N THEN <<out, c>>
                            ELSE LET r == BorrowSub(a[i], b[i], c) IN SubLoop(a, b, i + 1, r[2], [out EXCEPT ![i] = r[1]])
USub(a, b) == SubLoop(a, b, 0, FALSE, Zero)

\* src/bint/overflowing.rs: overflowing_add / overflowing_sub: N-1 unsigned digits, then the signed top digit
RECURSIVE AddLoopTo(_, _, _, _, _, _)
AddLoopTo(a, b, i, hi, c, out) == IF i = hi THEN <<out, c>>
                                  ELSE LET r == CarryAdd(a[i], b[i], c) IN AddLoopTo(a, b, i + 1, hi, r[2], [out EXCEPT ![i] = r[1]])
SAdd(a, b) == LET lo == AddLoopTo(a, b, 0, N - 1, FALSE, Zero)
                  t == CarryAddSigned(a[N - 1], b[N - 1], lo[2])
              IN <<[lo[1] EXCEPT ![N - 1] = t[1]], t[2]>>
RECURSIVE SubLoopTo(_, _, _, _, _, _)
SubLoopTo(a, b, i, hi, c, out) == IF i = hi THEN <<out, c>>
                                  ELSE LET r == BorrowSub(a[i], b[i], c) IN SubLoopTo(a, b, i + 1, hi, r[2], [out EXCEPT ![i] = r[1]])
SSub(a, b) == LET lo == SubLoopTo(a, b, 0, N - 1, FALSE, Zero)
                  t == BorrowSubSigned(a[N - 1], b[N - 1], lo[2])
              IN <<[lo[1] EXCEPT ![N - 1] = t[1]], t[2]>>

\* src/int/bigint_helpers.rs: carrying_add(self, rhs, carry) = second add of ONE, flags combined with xor
One == [i \in Idx |-> IF i = 0 THEN 1 ELSE 0]
Xor(p, q) == p # q
CarryingAdd(add(_, _), a, b, c) == LET r1 == add(a, b) IN IF c THEN LET r2 == add(r1[1], One) IN <<r2[1], Xor(r1[2], r2[2])>> ELSE r1
BorrowingSub(sub(_, _), a, b, c) == LET r1 == sub(a, b) IN IF c THEN LET r2 == sub(r1[1], One) IN <<r2[1], Xor(r1[2], r2[2])>> ELSE r1

\* src/buint/mul.rs: long_mul -- schoolbook product truncated to N digits with overflow detection
RECURSIVE MulInner(_, _, _, _, _, _, _)
MulInner(a, b, i, j, carry, out, ov) ==          \* returns <<out, carry, overflow, broke>>
    IF j = N THEN <<out, carry, ov>>
    ELSE IF i + j < N
         THEN LET p == carry + out[i + j] + a[i] * b[j]
              IN MulInner(a, b, i, j + 1, p \div B, [out EXCEPT ![i + j] = p % B], ov)
         ELSE IF a[i] # 0 /\ b[j] # 0 THEN <<out, carry, TRUE>>       \* break
         ELSE MulInner(a, b, i, j + 1, carry, out, ov)
RECURSIVE MulOuter(_, _, _, _, _)
MulOuter(a, b, i, out, ov) ==
    IF i = N THEN <<out, ov>>
    ELSE LET r == MulInner(a, b, i, 0, 0, out, ov)
         IN MulOuter(a, b, i + 1, r[1], r[3] \/ r[2] # 0)
LongMul(a, b) == MulOuter(a, b, 0, Zero, FALSE)

\* src/buint/mod.rs: unchecked_shl_internal (rhs < BITS): digit shift + bit shift with carry
ShlInternal(a, rhs) ==
    LET ds == rhs \div DBits
        bs == rhs % DBits
    IN IF bs # 0
       THEN [i \in Idx |-> IF i < ds THEN 0
                           ELSE ((a[i - ds] * P2(bs)) % B) + (IF i - ds - 1 >= 0 THEN a[i - ds - 1] \div P2(DBits - bs) ELSE 0)]
       ELSE [i \in Idx |-> IF i < ds THEN 0 ELSE a[i - ds]]
\* unchecked_shr_pad_internal with NEG = neg: shift right, filling with zeros or ones.
\* Digits are copied from the top down; each gets (current >> bs) | carry from the digit above;
\* the topmost copied digit has no digit above, and with NEG its vacated high bits are set.
ShrPad(a, rhs, neg) ==
    LET ds == rhs \div DBits
        bs == rhs % DBits
        fillDigit == IF neg THEN B - 1 ELSE 0
        Above(k) == IF k + ds + 1 < N THEN a[k + ds + 1] ELSE fillDigit
    IN [k \in Idx |->
          IF k + ds >= N THEN fillDigit
          ELSE IF bs = 0 THEN a[k + ds]
          ELSE (a[k + ds] \div P2(bs)) + ((Above(k) * P2(DBits - bs)) % B)]

\* src/buint/mod.rs: rotate_left = unchecked_rotate_left(n reduced): digit rotation then bit rotation
RotDigits(a, k) == [i \in Idx |-> a[(i - k) % N]]
RotBits(a, bs) == IF bs = 0 THEN a
                  ELSE [i \in Idx |-> ((a[i] * P2(bs)) % B) + (a[(i - 1) % N] \div P2(DBits - bs))]
UncheckedRotl(a, r) == RotBits(RotDigits(a, (r \div DBits) % (N + 1)), r % DBits)
RotateLeftMod(a, n)  == UncheckedRotl(a, n % W)                 \* the repaired reduction: n mod BITS
RECURSIVE AndNat(_, _)
AndNat(x, y) == IF x = 0 \/ y = 0 THEN 0 ELSE (x % 2) * (y % 2) + 2 * AndNat(x \div 2, y \div 2)
RotateLeftMask(a, n) == UncheckedRotl(a, AndNat(n, W - 1))      \* the pinned tree's reduction: n & (BITS - 1)

\* src/buint/mod.rs: leading_zeros / trailing_zeros counting loops with early exit
RECURSIVE LzDigit(_, _)
LzDigit(d, k) == IF k = 0 \/ d >= P2(k - 1) THEN 0 ELSE 1 + LzDigit(d, k - 1)
RECURSIVE LeadingZerosLoop(_, _, _)
LeadingZerosLoop(a, i, acc) == IF i = 0 THEN acc
                               ELSE IF a[i - 1] # 0 THEN acc + LzDigit(a[i - 1], DBits)
                               ELSE LeadingZerosLoop(a, i - 1, acc + DBits)
LeadingZeros(a) == LeadingZerosLoop(a, N, 0)

\* src/buint/const_trait_fillers.rs / src/bint: cmp from the most significant digit; signed compares the top digit as signed
RECURSIVE CmpLoop(_, _, _)
CmpLoop(a, b, i) == IF i = 0 THEN 0 ELSE IF a[i - 1] > b[i - 1] THEN 1 ELSE IF a[i - 1] < b[i - 1] THEN -1 ELSE CmpLoop(a, b, i - 1)
UCmp(a, b) == CmpLoop(a, b, N)
SCmp(a, b) == IF SD(a[N - 1]) > SD(b[N - 1]) THEN 1 ELSE IF SD(a[N - 1]) < SD(b[N - 1]) THEN -1 ELSE CmpLoop(a, b, N - 1)
==============================================================================
