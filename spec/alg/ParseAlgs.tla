------------------------------ MODULE ParseAlgs ------------------------------
(***************************************************************************)
(* L3: the general-radix arm of from_buf_radix_internal (every radix that  *)
(* is not 2, 4, 16 or 256: src/buint/radix.rs) and the signed wrapper      *)
(* BInt::from_str_radix (src/bint/radix.rs), code-shaped, checked by TLC   *)
(* against the grammar of property C10 for EVERY digit string up to a      *)
(* length bound over the alphabet 0..radix (the symbol `radix` stands for  *)
(* an invalid character), in both digit orders, at toy digit sizes.        *)
(*                                                                         *)
(* The parser reads the numeral in chunks of `power` radix digits, where   *)
(* radix^power is the largest power of the radix that fits one digit: a    *)
(* first, shorter chunk of len mod power digits, then for every further    *)
(* chunk  out := out * base  (a carry out of the top digit means overflow; *)
(* the rest of that chunk is still validated first),  n := value of the    *)
(* chunk,  out := checked_add(out, n).  Checked here: the result lies in   *)
(* the set C10 allows (Ok exactly for valid representable numerals; an     *)
(* invalid character is never accepted and is reported as InvalidDigit     *)
(* whenever the string is too short to overflow), and no chunk value ever  *)
(* exceeds a digit (`first * radix + d` is unchecked digit arithmetic).    *)
(***************************************************************************)
EXTENDS RadixAlgs

\* radix_base: largest radix^power representable in one digit, as the checked_mul loop computes it
RECURSIVE RadixBaseRec(_, _, _)
RadixBaseRec(radix, base, power) == IF base * radix > B - 1 THEN <<base, power>> ELSE RadixBaseRec(radix, base * radix, power + 1)
RadixBase(radix) == RadixBaseRec(radix, radix, 1)

\* buf as the code sees it; position i is 0-based from the MOST significant end of the numeral:
\* big-endian input reads buf[i], little-endian input reads buf[len - 1 - i]
At(buf, be, i) == IF be THEN buf[i + 1] ELSE buf[Len(buf) - i]

\* a chunk [lo, hi) of digit positions: <<ok, value, digit overflow seen>>
RECURSIVE Chunk(_, _, _, _, _, _, _)
Chunk(buf, be, radix, i, hi, acc, dov) ==
    IF i >= hi THEN <<TRUE, acc, dov>>
    ELSE LET d == At(buf, be, i)
         IN IF d >= radix THEN <<FALSE, 0, dov>>
            ELSE LET nx == acc * radix + d IN Chunk(buf, be, radix, i + 1, hi, nx % B, dov \/ nx >= B)
\* is there an invalid digit in positions [lo, hi)
RECURSIVE AnyInvalid(_, _, _, _, _)
AnyInvalid(buf, be, radix, i, hi) == IF i >= hi THEN FALSE ELSE IF At(buf, be, i) >= radix THEN TRUE ELSE AnyInvalid(buf, be, radix, i + 1, hi)

Min2(a, b) == IF a < b THEN a ELSE b
RECURSIVE PGLoop(_, _, _, _, _, _, _, _)
PGLoop(buf, be, radix, base, power, start, out, dov) ==      \* out: the value held in the N digits
    IF start >= Len(buf) THEN <<OkV(out), dov>>
    ELSE LET end == start + power
             hi == Min2(end, Len(buf))
             prod == out * base
         IN IF prod >= Cap                                    \* a carry leaves the top digit
            THEN <<(IF AnyInvalid(buf, be, radix, start, hi) THEN ErrInvalid ELSE ErrOverflow), dov>>
            ELSE LET c == Chunk(buf, be, radix, start, hi, 0, FALSE)
                 IN IF ~c[1] THEN <<ErrInvalid, dov \/ c[3]>>
                    ELSE IF prod + c[2] >= Cap THEN <<ErrOverflow, dov \/ c[3]>>          \* checked_add is None
                    ELSE PGLoop(buf, be, radix, base, power, end, prod + c[2], dov \/ c[3])
\* <<result, some unchecked digit computation overflowed>>
ParseGeneral(buf, be, radix) ==
    LET bp == RadixBase(radix)
        base == bp[1]  power == bp[2]
        r0 == Len(buf) % power
        split == IF r0 = 0 THEN power ELSE r0
        f == Chunk(buf, be, radix, 0, split, 0, FALSE)
    IN IF ~f[1] THEN <<ErrInvalid, f[3]>>
       ELSE PGLoop(buf, be, radix, base, power, split, f[2], f[3])

\* ---- BInt::from_str_radix on top of the unsigned parser: `neg` is whether the string started with '-'
ErrNegOverflow == [k |-> "err", e |-> "NegOverflow"]
RECURSIVE Tz(_)
Tz(x) == IF x % 2 = 1 THEN 0 ELSE 1 + Tz(x \div 2)
SignedWrap(u, neg) ==                \* u: result of the unsigned parser; the value returned is a signed integer
    IF u.k = "ok"
    THEN LET top == u.v >= Cap \div 2                                   \* uint.bit(BITS - 1)
         IN IF neg
            THEN IF top /\ Tz(u.v) # W - 1 THEN ErrNegOverflow ELSE OkV(-u.v)      \* from_bits(uint).wrapping_neg(): -2^(W-1) stays
            ELSE IF top THEN ErrOverflow ELSE OkV(u.v)
    ELSE IF u.e = "PosOverflow" /\ neg THEN ErrNegOverflow ELSE u
\* what C10 allows for a signed type: ds are the digits after the sign
SignedAllowed(ds, r, neg) ==
    LET v == Horner(ds, r, 1, 0)
        ovk == IF neg THEN ErrNegOverflow ELSE ErrOverflow
        fits == IF neg THEN v <= Cap \div 2 ELSE v < Cap \div 2
        \* too short to overflow: the largest numeral of this length is representable
        short == IF neg THEN PowI(r, Len(ds)) - 1 <= Cap \div 2 ELSE PowI(r, Len(ds)) - 1 < Cap \div 2
    IN IF AllValid(ds, r) THEN (IF fits THEN {OkV(IF neg THEN -v ELSE v)} ELSE {ovk})
       ELSE IF short THEN {ErrInvalid} ELSE {ErrInvalid, ovk}
==============================================================================
