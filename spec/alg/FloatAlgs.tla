------------------------------ MODULE FloatAlgs ------------------------------
(***************************************************************************)
(* L3: code-shaped transcription of src/cast/float/{mod,float_from_uint,   *)
(* uint_from_float}.rs and of the signed wrappers in src/bint/cast.rs, on  *)
(* a toy binary float format (1 sign bit, EB exponent bits, MD mantissa    *)
(* digits including the implicit one; f32 is EB = 8, MD = 24) and a toy    *)
(* integer width Wd.  Everything is a bit pattern: a float is 0 ..         *)
(* 2^(EB+MD) - 1, an integer 0 .. 2^Wd - 1.                                *)
(*                                                                         *)
(*   ConvertFloatParts  into_raw_parts, into_biased_parts, into_signed_    *)
(*                      parts, into_normalised_signed_parts (with the      *)
(*                      source's right shift of a subnormal mantissa),     *)
(*                      from_signed_parts .. from_raw_parts                *)
(*   UFromF             cast_uint_from_float: NaN, sign, infinity, zero,   *)
(*                      exp <= -1, exp >= BITS, fractional part shifted    *)
(*                      out, or mantissa shifted left                      *)
(*   IFromF             bint_cast_from_float! (negate, saturate at MIN/MAX)*)
(*   FFromU             cast_float_from_uint: bit width, infinity when the *)
(*                      exponent is too large, exact when the value fits   *)
(*                      the mantissa, otherwise shift, round half to even  *)
(*                      with `gte_half && (odd || trailing_zeros != shift  *)
(*                      - 1)`, carry into the next binade                  *)
(*   FFromI             CastFrom<BInt> for f32/f64: unsigned_abs, negate   *)
(*                                                                         *)
(* Checked for every float pattern and every integer against definitions   *)
(* that do not share the code's case analysis: truncation toward zero with *)
(* saturation, computed on a scaled integer; and round-to-nearest-even by  *)
(* a search over ALL finite floats (infinity standing for 2^MAX_EXP).      *)
(* Old = TRUE re-instates the pinned tree's treatment of [1/2, 1).         *)
(***************************************************************************)
EXTENDS Integers, FiniteSets, TLC
CONSTANTS EB, MD, Wd, Old

RECURSIVE P2(_)
P2(k) == IF k = 0 THEN 1 ELSE 2 * P2(k - 1)
RECURSIVE BitLen(_)
BitLen(n) == IF n = 0 THEN 0 ELSE 1 + BitLen(n \div 2)
RECURSIVE Tz(_)
Tz(n) == IF n % 2 = 1 THEN 0 ELSE 1 + Tz(n \div 2)
Bit(n, i) == (n \div P2(i)) % 2 = 1
Shr(n, k) == n \div P2(k)

FBITS == EB + MD                  \* 1 + EB + (MD - 1)
MAXEXP == P2(EB - 1)              \* f32: 128
MINEXP == 3 - MAXEXP              \* f32: -125
BIAS == MAXEXP - 1
EONES == P2(EB) - 1
M == P2(Wd)
UMax == M - 1
H == P2(Wd - 1)

\* ---- ConvertFloatParts
Sign(p) == p >= P2(FBITS - 1)
RawExp(p) == (p \div P2(MD - 1)) % P2(EB)
RawMant(p) == p % P2(MD - 1)
IsNan(p) == RawExp(p) = EONES /\ RawMant(p) # 0
IsInf(p) == RawExp(p) = EONES /\ RawMant(p) = 0
NegF(p) == IF Sign(p) THEN p - P2(FBITS - 1) ELSE p + P2(FBITS - 1)
\* into_biased_parts
BExp(p) == IF RawExp(p) = 0 THEN 1 ELSE RawExp(p)
BMant(p) == IF RawExp(p) = 0 THEN RawMant(p) ELSE RawMant(p) + P2(MD - 1)
\* into_signed_parts: exponent - EXP_BIAS
SExp(p) == BExp(p) - BIAS
\* into_normalised_signed_parts (the source shifts the mantissa of a subnormal to the RIGHT)
NShift(p) == MD - BitLen(BMant(p))
NExp(p) == IF BMant(p) = 0 \/ NShift(p) = 0 THEN SExp(p) ELSE SExp(p) - NShift(p)
NMant(p) == IF BMant(p) = 0 \/ NShift(p) = 0 THEN BMant(p) ELSE Shr(BMant(p), NShift(p))
\* from_signed_parts -> from_signed_biased_parts -> from_biased_parts -> from_raw_parts
FromSignedParts(sign, exponent, mantissa) ==
    LET e1 == exponent + BIAS
        hasImplicit == Bit(mantissa, MD - 1)
        m2 == IF hasImplicit THEN mantissa - P2(MD - 1) ELSE mantissa
        e2 == IF hasImplicit THEN e1 ELSE 0
    IN e2 * P2(MD - 1) + m2 + (IF sign THEN P2(FBITS - 1) ELSE 0)

\* ---- cast_uint_from_float  (result; `lost` records a cast or shift that dropped set bits)
UFromF(p) ==
    IF IsNan(p) THEN [v |-> 0, lost |-> FALSE]
    ELSE LET inf == IsInf(p)
             exp == NExp(p)
             mant == NMant(p)
         IN IF Sign(p) THEN [v |-> 0, lost |-> FALSE]
            ELSE IF inf THEN [v |-> UMax, lost |-> FALSE]
            ELSE IF mant = 0 THEN [v |-> 0, lost |-> FALSE]
            ELSE IF (IF Old THEN exp < -1 ELSE exp <= -1) THEN [v |-> 0, lost |-> FALSE]
            ELSE IF Old /\ exp = -1 THEN [v |-> IF mant = P2(BitLen(mant) - 1) THEN 0 ELSE 1, lost |-> FALSE]
            ELSE IF exp >= Wd THEN [v |-> UMax, lost |-> FALSE]
            ELSE LET mbw == BitLen(mant)
                 IN IF exp <= mbw - 1
                    THEN LET t == Shr(mant, mbw - 1 - exp) IN [v |-> t % M, lost |-> t >= M]
                    ELSE LET c == mant % M
                             t == c * P2(exp - (mbw - 1))
                         IN [v |-> t % M, lost |-> mant >= M \/ t >= M]
\* bint_cast_from_float!
IFromF(p) ==
    IF Sign(p)
    THEN LET u == UFromF(NegF(p)).v IN IF u >= H THEN H ELSE (M - u) % M
    ELSE LET u == UFromF(p).v IN IF u >= H THEN H - 1 ELSE u

\* ---- cast_float_from_uint
FFromU(value) ==
    LET bw == BitLen(value)
    IN IF bw = 0 THEN 0
       ELSE LET exponent == bw - 1
            IN IF exponent >= MAXEXP THEN EONES * P2(MD - 1)
               ELSE IF bw <= MD THEN FromSignedParts(FALSE, exponent, value * P2(MD - bw))
               ELSE LET shift == bw - MD
                        gteHalf == Bit(value, shift - 1)
                        sm == Shr(value, shift)
                        up == gteHalf /\ (Bit(sm, 0) \/ Tz(value) # shift - 1)
                        sm1 == IF up THEN sm + 1 ELSE sm
                        carry == up /\ Bit(sm1, MD)
                    IN FromSignedParts(FALSE, IF carry THEN exponent + 1 ELSE exponent, IF carry THEN Shr(sm1, 1) ELSE sm1)
\* CastFrom<BInt> for the floats: sign-magnitude through unsigned_abs()
FFromI(pat) == IF pat >= H THEN NegF(FFromU(M - pat)) ELSE FFromU(pat)

\* ---- reference definitions
\* a finite non-negative float q denotes  Scaled(q) / 2^(BIAS + MD - 1)
Scaled(q) == BMant(q) * P2(BExp(q))
One == P2(BIAS + MD - 1)
InfPat == EONES * P2(MD - 1)
\* truncation toward zero, saturating, NaN -> 0
RefUFromF(p) == IF IsNan(p) \/ Sign(p) THEN 0
                ELSE IF IsInf(p) THEN UMax
                ELSE LET t == Scaled(p) \div One IN IF t > UMax THEN UMax ELSE t
RefIFromF(p) == IF IsNan(p) THEN 0
                ELSE LET mag == IF IsInf(p) THEN M ELSE Scaled(IF Sign(p) THEN NegF(p) ELSE p) \div One
                     IN IF Sign(p) THEN (IF mag >= H THEN H ELSE (M - mag) % M)
                        ELSE (IF mag >= H THEN H - 1 ELSE mag)
\* nearest float, ties to the even pattern; infinity stands for the value 2^MAXEXP
Abs(z) == IF z < 0 THEN -z ELSE z
RefFFromU(x) ==
    LET X == x * One
        Cand == 0..InfPat
        D(q) == Abs(Scaled(q) - X)
        dmin == CHOOSE d \in {D(q) : q \in Cand} : \A q \in Cand : d <= D(q)
        ties == {q \in Cand : D(q) = dmin}
    IN IF X >= Scaled(InfPat) THEN InfPat
       ELSE IF Cardinality(ties) = 1 THEN CHOOSE q \in ties : TRUE
       ELSE CHOOSE q \in ties : q % 2 = 0
RefFFromI(pat) == IF pat >= H THEN NegF(RefFFromU(M - pat)) ELSE RefFFromU(pat)

\* ---- the model: one state per input, one step that computes
VARIABLES dir, inp, out, ref, lost
vars == <<dir, inp, out, ref, lost>>
Floats == 0..(P2(FBITS) - 1)
Ints == 0..UMax
Init == /\ \/ (dir \in {"u_from_f", "i_from_f"} /\ inp \in Floats)
           \/ (dir \in {"f_from_u", "f_from_i"} /\ inp \in Ints)
        /\ out = -1 /\ ref = -1 /\ lost = FALSE
Compute == /\ out = -1
           /\ out' = CASE dir = "u_from_f" -> UFromF(inp).v
                       [] dir = "i_from_f" -> IFromF(inp)
                       [] dir = "f_from_u" -> FFromU(inp)
                       [] dir = "f_from_i" -> FFromI(inp)
           /\ ref' = CASE dir = "u_from_f" -> RefUFromF(inp)
                       [] dir = "i_from_f" -> RefIFromF(inp)
                       [] dir = "f_from_u" -> RefFFromU(inp)
                       [] dir = "f_from_i" -> RefFFromI(inp)
           /\ lost' = (dir = "u_from_f" /\ UFromF(inp).lost)
           /\ UNCHANGED <<dir, inp>>
Next == Compute \/ (out # -1 /\ UNCHANGED vars)
Spec == Init /\ [][Next]_vars

Correct == out # -1 => out = ref
NoLostBits == ~lost
\* vacuity probes (each must be refuted)
NoCarry == ~(dir = "f_from_u" /\ out # -1 /\ BitLen(inp) > MD /\ RawMant(out) = 0 /\ RawExp(out) = BitLen(inp) + BIAS)   \* rounding carried into the next binade
NoRoundToInf == ~(dir = "f_from_u" /\ out = InfPat /\ BitLen(inp) - 1 < MAXEXP)                                        \* finite exponent, rounds to infinity
NoSaturate == ~(dir = "i_from_f" /\ out = H - 1 /\ ~IsInf(inp))                                                          \* finite float saturating at MAX
NoSubnormal == ~(dir = "u_from_f" /\ out # -1 /\ RawExp(inp) = 0 /\ RawMant(inp) # 0 /\ NShift(inp) > 0)
NoShiftLeft == ~(dir = "u_from_f" /\ out # -1 /\ ~IsNan(inp) /\ ~IsInf(inp) /\ ~Sign(inp) /\ NExp(inp) > MD - 1 /\ NExp(inp) < Wd)
==============================================================================
