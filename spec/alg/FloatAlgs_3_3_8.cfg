SPECIFICATION Spec
CONSTANTS EB = 3
          MD = 3
          Wd = 8
          Old = FALSE
INVARIANTS Correct NoLostBits
CHECK_DEADLOCK FALSE
