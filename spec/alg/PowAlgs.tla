------------------------------- MODULE PowAlgs -------------------------------
(***************************************************************************)
(* L3: code-shaped state machines of the power and logarithm loops, at a   *)
(* toy bit width Wd (values are bit patterns 0 .. 2^Wd - 1):               *)
(*   UPow   src/buint/{overflowing,checked,wrapping,saturating}.rs:        *)
(*          exponentiation by squaring  `while pow > 1 { if pow & 1 == 1   *)
(*          { y = y * self } self = self * self; pow >>= 1 } self * y`     *)
(*          with the overflow flag OR-ed over every product (overflowing), *)
(*          an early None (checked) or no test at all (wrapping)           *)
(*   IPow   src/bint/{overflowing,checked,saturating,wrapping}.rs: the     *)
(*          unsigned loop on unsigned_abs(), then the sign is restored     *)
(*          and overflow is re-derived from the sign bit of the result     *)
(*   ILog   src/buint/checked.rs iilog (Jaffer's recursive integer         *)
(*          logarithm): ilog(x, b) = iilog(1, b, x / b) where              *)
(*          iilog(m, b, k) = if b > k {(m, k)} else { (n, q) =             *)
(*          iilog(2m, b*b, k/b); if b > q {(n, q)} else {(n+m, q/b)} };    *)
(*          `b.mul(b)` is the panicking multiplication, so an overflow     *)
(*          there would be a panic with debug assertions                   *)
(* Checked for every input (value, exponent or base) at the toy width:     *)
(* the results equal the mathematical definition, the overflow flag /      *)
(* None is reported exactly when the exact power is not representable,     *)
(* no squaring inside iilog overflows, and all loops terminate.            *)
(***************************************************************************)
EXTENDS Integers, Sequences, FiniteSets, TLC
CONSTANTS Wd, MaxE

RECURSIVE P2(_)
P2(k) == IF k = 0 THEN 1 ELSE 2 * P2(k - 1)
M == P2(Wd)
H == P2(Wd - 1)
Mx == M - 1

\* ---- reference (mathematical) definitions, independent of the loops
\* b^e capped at M (every value >= M is "too large" for both signednesses)
RECURSIVE PowCap(_, _)
PowCap(b, e) == IF e = 0 THEN 1 ELSE LET r == PowCap(b, e - 1) IN IF r * b >= M THEN M ELSE r * b
\* b^e mod M
RECURSIVE PowMod(_, _)
PowMod(b, e) == IF e = 0 THEN 1 % M ELSE (PowMod(b, e - 1) * b) % M
IsNegPat(p) == p >= H
AbsPat(p) == IF IsNegPat(p) THEN M - p ELSE p           \* unsigned_abs as a bit pattern (|MIN| = H)
NegPat(p) == (M - p) % M                                \* wrapping_neg
\* floor(log_b x) for x >= 1, b >= 2
RECURSIVE LogRef(_, _)
LogRef(xx, b) == IF xx < b THEN 0 ELSE 1 + LogRef(xx \div b, b)

\* unsigned: exact power representable?
UFits(xx, ee) == PowCap(xx, ee) < M
\* signed: pattern xx, exact power representable in [-H, H) ?
SFits(xx, ee) == LET mag == PowCap(AbsPat(xx), ee)
                     neg == IsNegPat(xx) /\ ee % 2 = 1
                 IN IF neg THEN mag <= H ELSE mag < H

VARIABLES alg,        \* "upow" | "ipow" | "ilog"
          variant,    \* "overflowing" | "checked" | "wrapping" | "saturating"
          x, e,       \* inputs: bit pattern and exponent (ilog: value and base)
          pc, sf, y, pw, ov,    \* loop registers of the unsigned power loop
          ures,       \* result of the unsigned loop: [v, o] or "none"
          stk, ret,   \* ILog: explicit call stack of <<m, b, k>> frames, returned pair
          res, bad    \* final result; an intermediate product of iilog overflowed
vars == <<alg, variant, x, e, pc, sf, y, pw, ov, ures, stk, ret, res, bad>>

None == [none |-> TRUE]
Variants == {"overflowing", "checked", "wrapping", "saturating"}
Init == /\ \/ /\ alg \in {"upow", "ipow"} /\ variant \in Variants /\ x \in 0..Mx /\ e \in 0..MaxE
           \/ /\ alg = "ilog" /\ variant = "checked" /\ x \in 0..Mx /\ e \in 0..Mx
        /\ pc = "start" /\ sf = 0 /\ y = 0 /\ pw = 0 /\ ov = FALSE /\ ures = None
        /\ stk = <<>> /\ ret = <<0, 0>> /\ res = None /\ bad = FALSE

\* which flavour of the unsigned loop a (alg, variant) runs, and on which operand
LoopKind == IF alg = "upow" THEN (IF variant = "saturating" THEN "overflowing" ELSE variant)      \* saturate_up(overflowing_pow)
            ELSE IF variant = "saturating" THEN "checked"                                         \* bint: checked_pow, then saturate
            ELSE variant
LoopBase == IF alg = "ipow" /\ variant # "wrapping" THEN AbsPat(x) ELSE x                          \* bint wrapping_pow works on the bits

\* one product inside the loop: <<wrapped value, overflowed>>
Prod(a, b) == <<(a * b) % M, a * b >= M>>

PStart == /\ pc = "start" /\ alg \in {"upow", "ipow"}
          /\ IF e = 0
             THEN ures' = [v |-> 1 % M, o |-> FALSE] /\ pc' = "udone" /\ UNCHANGED <<sf, y, pw, ov>>
             ELSE sf' = LoopBase /\ y' = 1 /\ pw' = e /\ ov' = FALSE /\ pc' = "loop" /\ ures' = ures
          /\ UNCHANGED <<alg, variant, x, e, stk, ret, res, bad>>
\* `if pow & 1 == 1 { y = y * self }`
POdd == /\ pc = "loop" /\ pw > 1
        /\ IF pw % 2 = 1
           THEN LET p == Prod(y, sf)
                IN IF LoopKind = "checked" /\ p[2]
                   THEN ures' = None /\ pc' = "udone" /\ UNCHANGED <<y, ov>>
                   ELSE y' = p[1] /\ ov' = (ov \/ p[2]) /\ pc' = "sq" /\ ures' = ures
           ELSE pc' = "sq" /\ UNCHANGED <<y, ov, ures>>
        /\ UNCHANGED <<alg, variant, x, e, sf, pw, stk, ret, res, bad>>
\* `self = self * self; pow >>= 1`
PSq == /\ pc = "sq"
       /\ LET p == Prod(sf, sf)
          IN IF LoopKind = "checked" /\ p[2]
             THEN ures' = None /\ pc' = "udone" /\ UNCHANGED <<sf, pw, ov>>
             ELSE sf' = p[1] /\ ov' = (ov \/ p[2]) /\ pw' = pw \div 2 /\ pc' = "loop" /\ ures' = ures
       /\ UNCHANGED <<alg, variant, x, e, y, stk, ret, res, bad>>
\* `self * y` after the loop
PFinal == /\ pc = "loop" /\ pw <= 1
          /\ LET p == Prod(sf, y)
             IN ures' = IF LoopKind = "checked" /\ p[2] THEN None ELSE [v |-> p[1], o |-> (ov \/ p[2])]
          /\ pc' = "udone"
          /\ UNCHANGED <<alg, variant, x, e, sf, y, pw, ov, stk, ret, res, bad>>

\* the public unsigned methods
UWrap == /\ pc = "udone" /\ alg = "upow"
         /\ res' = CASE variant = "overflowing" -> ures
                     [] variant = "checked"     -> ures
                     [] variant = "wrapping"    -> [v |-> ures.v]
                     [] variant = "saturating"  -> [v |-> IF ures.o THEN Mx ELSE ures.v]
         /\ pc' = "done"
         /\ UNCHANGED <<alg, variant, x, e, sf, y, pw, ov, ures, stk, ret, bad>>
\* the public signed methods, from the unsigned result u
IWrap == /\ pc = "udone" /\ alg = "ipow"
         /\ LET neg == IsNegPat(x)
                odd == e % 2 = 1
            IN res' =
               CASE variant = "overflowing" ->
                      \* out = from_bits(u); if out_neg { out = -out (wrapping); o |= !out.is_negative() } else { o |= out.is_negative() }
                      LET out == IF neg /\ odd THEN NegPat(ures.v) ELSE ures.v
                      IN [v |-> out, o |-> ures.o \/ (IF neg /\ odd THEN ~IsNegPat(out) ELSE IsNegPat(out))]
                 [] variant \in {"checked", "saturating"} ->
                      LET c == IF "none" \in DOMAIN ures THEN None
                               ELSE IF ~neg \/ ~odd
                                    THEN (IF IsNegPat(ures.v) THEN None ELSE [v |-> ures.v])
                                    ELSE LET out == NegPat(ures.v) IN IF ~IsNegPat(out) THEN None ELSE [v |-> out]
                      IN IF variant = "checked" THEN c
                         ELSE IF "none" \in DOMAIN c THEN [v |-> IF neg /\ odd THEN H ELSE H - 1] ELSE c
                 [] variant = "wrapping" -> [v |-> ures.v]
         /\ pc' = "done"
         /\ UNCHANGED <<alg, variant, x, e, sf, y, pw, ov, ures, stk, ret, bad>>

\* ---- checked_ilog(x, base = e) for base >= 3 (base 2 is ilog2, bases below 2 and x = 0 are None)
LStart == /\ pc = "start" /\ alg = "ilog"
          /\ IF e < 3 \/ x = 0 THEN res' = None /\ pc' = "done" /\ UNCHANGED stk
             ELSE IF e > x THEN res' = [v |-> 0] /\ pc' = "done" /\ UNCHANGED stk
             ELSE stk' = <<<<1, e, x \div e>>>> /\ pc' = "call" /\ res' = res
          /\ UNCHANGED <<alg, variant, x, e, sf, y, pw, ov, ures, ret, bad>>
\* entering iilog(m, b, k): either return (m, k) or recurse with (2m, b*b, k / b)
LCall == /\ pc = "call"
         /\ LET f == stk[Len(stk)]
                m == f[1]  b == f[2]  k == f[3]
            IN IF b > k
               THEN ret' = <<m, k>> /\ stk' = SubSeq(stk, 1, Len(stk) - 1) /\ pc' = "ret" /\ bad' = bad
               ELSE /\ stk' = Append(stk, <<2 * m, (b * b) % M, k \div b>>)
                    /\ bad' = (bad \/ b * b >= M)
                    /\ pc' = "call" /\ ret' = ret
         /\ UNCHANGED <<alg, variant, x, e, sf, y, pw, ov, ures, res>>
\* returning into the frame below: `if b > q {(new, q)} else {(new + m, q / b)}`
LRet == /\ pc = "ret"
        /\ IF stk = <<>>
           THEN res' = [v |-> ret[1]] /\ pc' = "done" /\ UNCHANGED <<stk, ret>>
           ELSE LET f == stk[Len(stk)]
                    m == f[1]  b == f[2]
                    new == ret[1]  q == ret[2]
                IN /\ ret' = IF b > q THEN <<new, q>> ELSE <<new + m, q \div b>>
                   /\ stk' = SubSeq(stk, 1, Len(stk) - 1)
                   /\ pc' = "ret" /\ res' = res
        /\ UNCHANGED <<alg, variant, x, e, sf, y, pw, ov, ures, bad>>

Done == pc = "done" /\ UNCHANGED vars
Step == PStart \/ POdd \/ PSq \/ PFinal \/ UWrap \/ IWrap \/ LStart \/ LCall \/ LRet
Next == Step \/ Done
Spec == Init /\ [][Next]_vars /\ WF_vars(Step)

\* ---- properties
UExpect == CASE variant = "overflowing" -> [v |-> PowMod(x, e), o |-> ~UFits(x, e)]
             [] variant = "checked"     -> IF UFits(x, e) THEN [v |-> PowMod(x, e), o |-> FALSE] ELSE None
             [] variant = "wrapping"    -> [v |-> PowMod(x, e)]
             [] variant = "saturating"  -> [v |-> IF UFits(x, e) THEN PowMod(x, e) ELSE Mx]
IExpect == CASE variant = "overflowing" -> [v |-> PowMod(x, e), o |-> ~SFits(x, e)]
             [] variant = "checked"     -> IF SFits(x, e) THEN [v |-> PowMod(x, e)] ELSE None
             [] variant = "wrapping"    -> [v |-> PowMod(x, e)]
             [] variant = "saturating"  -> [v |-> IF SFits(x, e) THEN PowMod(x, e)
                                                  ELSE IF IsNegPat(x) /\ e % 2 = 1 THEN H ELSE H - 1]
LExpect == IF e < 3 \/ x = 0 THEN None ELSE [v |-> LogRef(x, e)]
\* the checked unsigned result carries no flag in the public API; compare the value only
Strip(r) == IF "none" \in DOMAIN r THEN r ELSE IF alg = "upow" /\ variant = "checked" THEN [v |-> r.v, o |-> FALSE] ELSE r
Correct == pc = "done" =>
              CASE alg = "upow" -> Strip(res) = UExpect
                [] alg = "ipow" -> res = IExpect
                [] alg = "ilog" -> res = LExpect
NoOverflow == ~bad
Terminates == <>(pc = "done")
\* vacuity probes (each must be refuted): the interesting branches are reachable
NoEarlyNone == ~(pc = "udone" /\ ures = None /\ pw > 1)                      \* checked_pow returns early inside the loop
NoSignFlip == ~(pc = "done" /\ alg = "ipow" /\ variant = "overflowing" /\ ~ures.o /\ res.o)   \* overflow only visible in the sign bit
NoMinPower == ~(pc = "done" /\ alg = "ipow" /\ variant = "checked" /\ res = [v |-> H] /\ e > 1)    \* (-2)^(Wd-1) = MIN is representable
NoDeepLog == Len(stk) < 3
==============================================================================
