------------------------------ MODULE CastAlgs ------------------------------
(***************************************************************************)
(* L3: code-shaped model of the casts between bnum integers of different   *)
(* digit sizes (src/buint/cast.rs buint_as_different_digit_bigint and      *)
(* src/bint/cast.rs bint_as_different_digit_bigint): splitting wide source *)
(* digits into narrow target digits, packing narrow source digits into     *)
(* wide target digits, the stop index when the widths differ, and the      *)
(* all-ones prefill / and-not packing for negative signed sources.         *)
(* Source: M digits of SB bits; target: N digits of TB bits.  Checked for  *)
(* every source value: the result is the value reduced mod 2^(target bits),*)
(* sign-extended first when the source is signed.                          *)
(***************************************************************************)
EXTENDS Integers, Sequences, TLC
CONSTANTS SB, M, TB, N

RECURSIVE P2(_)
P2(k) == IF k = 0 THEN 1 ELSE 2 * P2(k - 1)
SW == SB * M
TW == TB * N
SDig(x, i) == (x \div P2(SB * i)) % P2(SB)          \* i-th source digit of the source pattern x
RECURSIVE ValT(_, _)
ValT(f, i) == IF i >= N THEN 0 ELSE f[i] + P2(TB) * ValT(f, i + 1)
RECURSIVE AndNat(_, _)
AndNat(a, b) == IF a = 0 \/ b = 0 THEN 0 ELSE (a % 2) * (b % 2) + 2 * AndNat(a \div 2, b \div 2)
NotD(d, bits) == P2(bits) - 1 - d

\* ---- unsigned source (also used for non-negative signed sources and for sources at least as wide as the target)
\* target digits narrower than source digits: split
SplitLoop(x, fill) ==
    LET dc == SB \div TB
        stop == IF SW > TW THEN N ELSE M * dc
    IN [i \in 0..(N - 1) |-> IF i < stop THEN (SDig(x, i \div dc) \div P2((i % dc) * TB)) % P2(TB) ELSE fill]
\* target digits wider than (or equal to) source digits: pack with `|=` into a zero digit
RECURSIVE PackLoop(_, _, _, _, _, _)
PackLoop(x, i, stop, dc, cur, out) ==
    IF i = stop THEN out
    ELSE LET ms == i % dc
             cur2 == cur + SDig(x, i) * P2(ms * SB)                   \* current_digit |= digit << shift (disjoint bits)
         IN IF ms = dc - 1 \/ i = stop - 1
            THEN PackLoop(x, i + 1, stop, dc, 0, [out EXCEPT ![i \div dc] = cur2])
            ELSE PackLoop(x, i + 1, stop, dc, cur2, out)
UCast(x) ==
    IF TB < SB THEN SplitLoop(x, 0)
    ELSE LET dc == TB \div SB
             stop == IF SW > TW THEN N * dc ELSE M
         IN PackLoop(x, 0, stop, dc, 0, [i \in 0..(N - 1) |-> 0])

\* ---- negative signed source strictly narrower than the target: prefilled with all ones
RECURSIVE PackNegLoop(_, _, _, _, _, _)
PackNegLoop(x, i, stop, dc, cur, out) ==
    IF i = stop THEN out
    ELSE LET ms == i % dc
             mask == NotD((NotD(SDig(x, i), SB) * P2(ms * SB)) % P2(TB), TB)      \* !((!digit as T) << shift)
             cur2 == AndNat(cur, mask)
         IN IF ms = dc - 1 \/ i = stop - 1
            THEN PackNegLoop(x, i + 1, stop, dc, P2(TB) - 1, [out EXCEPT ![i \div dc] = cur2])
            ELSE PackNegLoop(x, i + 1, stop, dc, cur2, out)
SCast(x) ==
    LET neg == x >= P2(SW - 1)
    IN IF ~neg \/ SW >= TW THEN UCast(x)
       ELSE IF TB < SB THEN SplitLoop(x, P2(TB) - 1)
       ELSE LET dc == TB \div SB
                stop == IF SW > TW THEN N * dc ELSE M
            IN PackNegLoop(x, 0, stop, dc, P2(TB) - 1, [i \in 0..(N - 1) |-> P2(TB) - 1])

VARIABLE x
Init == x \in 0..(P2(SW) - 1)
Next == UNCHANGED x
Spec == Init /\ [][Next]_x

SVal == IF x >= P2(SW - 1) THEN x - P2(SW) ELSE x
CastOK == /\ ValT(UCast(x), 0) = x % P2(TW)
          /\ ValT(SCast(x), 0) = SVal % P2(TW)
=============================================================================
