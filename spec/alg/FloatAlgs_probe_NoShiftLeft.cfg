SPECIFICATION Spec
CONSTANTS EB = 3
          MD = 3
          Wd = 10
          Old = FALSE
INVARIANTS NoShiftLeft
CHECK_DEADLOCK FALSE
