SPECIFICATION Spec
CONSTANTS Wd = 8
          MaxE = 19
INVARIANTS Correct NoOverflow
PROPERTY Terminates
CHECK_DEADLOCK FALSE
