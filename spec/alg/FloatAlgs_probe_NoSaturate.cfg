SPECIFICATION Spec
CONSTANTS EB = 3
          MD = 3
          Wd = 4
          Old = FALSE
INVARIANTS NoSaturate
CHECK_DEADLOCK FALSE
