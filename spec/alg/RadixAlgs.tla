------------------------------ MODULE RadixAlgs ------------------------------
(***************************************************************************)
(* L3: code-shaped models of bnum's radix routines (src/buint/radix.rs),   *)
(* parametric in the digit width DBits and digit count N:                  *)
(*   ParsePow2      the `2 | 4 | 16 | 256` arm of from_buf_radix_internal  *)
(*                  (chunked bit-packing, big- or little-endian input),    *)
(*                  as repaired (leading zeros skipped before the capacity *)
(*                  test) and as on the pinned tree (ParsePow2Old)         *)
(*   ToBitwiseLe, ToInexactBitwiseLe, ToRadixDigitsLe   the three output   *)
(*                  routines behind to_radix_le                            *)
(* Values are native integers below 2^(DBits*N); digit strings are         *)
(* sequences of radix digits, where the value `radix` itself stands for    *)
(* an invalid character.                                                   *)
(***************************************************************************)
EXTENDS Integers, Sequences, FiniteSets, TLC
CONSTANTS DBits, N

RECURSIVE P2(_)
P2(k) == IF k = 0 THEN 1 ELSE 2 * P2(k - 1)
B == P2(DBits)
W == DBits * N
Cap == P2(W)
RECURSIVE PowI(_, _)
PowI(b, e) == IF e = 0 THEN 1 ELSE b * PowI(b, e - 1)
RECURSIVE BitLen(_)
BitLen(n) == IF n = 0 THEN 0 ELSE 1 + BitLen(n \div 2)
DivCeil(a, b) == IF a % b = 0 THEN a \div b ELSE (a \div b) + 1
DigitOf(x, i) == (x \div P2(DBits * i)) % B            \* i-th big digit of x
LastDigitIndex(x) == IF x = 0 THEN 0 ELSE (BitLen(x) - 1) \div DBits

\* results of parsing
OkV(v) == [k |-> "ok", v |-> v]
ErrInvalid == [k |-> "err", e |-> "InvalidDigit"]
ErrOverflow == [k |-> "err", e |-> "PosOverflow"]

\* ---- reference meaning (property C10): most-significant-first digit string ds in radix r
RECURSIVE Horner(_, _, _, _)
Horner(ds, r, i, acc) == IF i > Len(ds) THEN acc ELSE Horner(ds, r, i + 1, acc * r + ds[i])
AllValid(ds, r) == \A i \in 1..Len(ds) : ds[i] < r
\* the set of results the property allows for a non-empty unsigned digit string without sign
Allowed(ds, r) ==
    IF AllValid(ds, r)
    THEN (IF Horner(ds, r, 1, 0) < Cap THEN {OkV(Horner(ds, r, 1, 0))} ELSE {ErrOverflow})
    ELSE IF PowI(r, Len(ds)) - 1 < Cap THEN {ErrInvalid} ELSE {ErrInvalid, ErrOverflow}

\* ---- ParsePow2: log2r bits per radix digit, base_digits_per_digit radix digits per big digit.
\* buf is the input as the code sees it: most significant first when be, least significant first otherwise.
Reverse(s) == [i \in 1..Len(s) |-> s[Len(s) + 1 - i]]
RECURSIVE SkipMS(_, _, _)
SkipMS(buf, be, n) ==      \* number of input digits left after skipping zero digits at the most significant end
    IF n = 0 THEN 0
    ELSE IF (IF be THEN buf[Len(buf) - n + 1] ELSE buf[n]) = 0 THEN SkipMS(buf, be, n - 1) ELSE n
RECURSIVE FirstInvalid(_, _, _, _)
FirstInvalid(buf, r, i, hi) == IF i > hi THEN FALSE ELSE IF buf[i] >= r THEN TRUE ELSE FirstInvalid(buf, r, i + 1, hi)
\* the packing loops: digit idx k (0-based, least significant first) of the number
LSDigit(buf, be, k) == IF be THEN buf[Len(buf) - k] ELSE buf[k + 1]
RECURSIVE Pack(_, _, _, _, _, _, _)
Pack(buf, be, r, log2r, cnt, k, acc) ==     \* process LS digits k .. cnt-1; acc is the value so far
    IF k = cnt THEN OkV(acc)
    ELSE LET d == LSDigit(buf, be, k)
         IN IF d >= r THEN ErrInvalid ELSE Pack(buf, be, r, log2r, cnt, k + 1, acc + d * P2(log2r * k))
ParsePow2Gen(buf, be, log2r, skip) ==
    LET r == P2(log2r)
        bdpd == DBits \div log2r
        len0 == Len(buf)
        len == IF skip THEN SkipMS(buf, be, len0) ELSE len0
        full == len \div bdpd
        rem == len % bdpd
    IN IF full > N \/ (full = N /\ rem # 0)
       THEN IF FirstInvalid(buf, r, 1, N * bdpd) THEN ErrInvalid ELSE ErrOverflow
       ELSE Pack(buf, be, r, log2r, len, 0, 0)
ParsePow2(buf, be, log2r) == ParsePow2Gen(buf, be, log2r, TRUE)       \* as repaired
ParsePow2Old(buf, be, log2r) == ParsePow2Gen(buf, be, log2r, FALSE)   \* the pinned tree

\* ---- output: least-significant-first digit lists
RECURSIVE Canon(_, _)
Canon(x, r) == IF x = 0 THEN <<>> ELSE <<x % r>> \o Canon(x \div r, r)          \* canonical LS-first digits (empty for 0)

\* to_bitwise_digits_le: bits divides DBits; whole digits emit DBits/bits radix digits, the last digit until exhausted
RECURSIVE EmitFixed(_, _, _)
EmitFixed(d, bits, cnt) == IF cnt = 0 THEN <<>> ELSE <<d % P2(bits)>> \o EmitFixed(d \div P2(bits), bits, cnt - 1)
RECURSIVE EmitWhile(_, _)
EmitWhile(rr, bits) == IF rr = 0 THEN <<>> ELSE <<rr % P2(bits)>> \o EmitWhile(rr \div P2(bits), bits)
RECURSIVE BitwiseLow(_, _, _, _)
BitwiseLow(x, bits, i, ldi) == IF i = ldi THEN <<>> ELSE EmitFixed(DigitOf(x, i), bits, DBits \div bits) \o BitwiseLow(x, bits, i + 1, ldi)
ToBitwiseLe(x, bits) == LET ldi == LastDigitIndex(x) IN BitwiseLow(x, bits, 0, ldi) \o EmitWhile(DigitOf(x, ldi), bits)

\* to_inexact_bitwise_digits_le: bits does not divide DBits; a bit buffer (r, rbits) straddles digits.
\* The register r is a machine digit: `r |= c << rbits` and later refills keep only DBits bits.
RECURSIVE InexactInner(_, _, _, _, _)
InexactInner(c, bits, rr, rbits, out) ==
    IF rbits < bits THEN <<rr, rbits, out>>
    ELSE LET o2 == Append(out, rr % P2(bits))
             r1 == rr \div P2(bits)
             r2 == IF rbits > DBits THEN c \div P2(DBits - (rbits - bits)) ELSE r1
         IN InexactInner(c, bits, r2, rbits - bits, o2)
RECURSIVE InexactOuter(_, _, _, _, _, _)
InexactOuter(x, bits, i, rr, rbits, out) ==
    IF i = N THEN <<rr, rbits, out>>
    ELSE LET c == DigitOf(x, i)
             r0 == (rr + ((c * P2(rbits)) % B)) % B          \* r |= c << rbits, kept to DBits bits
             st == InexactInner(c, bits, r0, rbits + DBits, out)
         IN InexactOuter(x, bits, i + 1, st[1], st[2], st[3])
RECURSIVE TrimMS(_)
TrimMS(s) == IF Len(s) > 0 /\ s[Len(s)] = 0 THEN TrimMS(SubSeq(s, 1, Len(s) - 1)) ELSE s
ToInexactBitwiseLe(x, bits) ==
    LET st == InexactOuter(x, bits, 0, 0, 0, <<>>)
        o2 == IF st[2] # 0 THEN Append(st[3], st[1] % 256) ELSE st[3]
    IN TrimMS(o2)

\* to_radix_digits_le: divide by base = radix^power (the largest power fitting half a digit), emit `power` digits per chunk
RECURSIVE HalfBase(_, _, _)
HalfBase(radix, base, power) ==          \* radix_base_half: largest radix^power <= 2^(DBits/2) - 1 ... as the loop computes it
    IF base * radix > P2(DBits \div 2) - 1 THEN <<base, power>> ELSE HalfBase(radix, base * radix, power + 1)
RECURSIVE EmitPow(_, _, _)
EmitPow(rr, radix, cnt) == IF cnt = 0 THEN <<>> ELSE <<rr % radix>> \o EmitPow(rr \div radix, radix, cnt - 1)
RECURSIVE EmitRest(_, _)
EmitRest(rr, radix) == IF rr = 0 THEN <<>> ELSE <<rr % radix>> \o EmitRest(rr \div radix, radix)
RECURSIVE RadixChunks(_, _, _, _)
RadixChunks(copy, radix, base, power) ==
    IF LastDigitIndex(copy) = 0 THEN EmitRest(copy, radix)
    ELSE EmitPow(copy % base, radix, power) \o RadixChunks(copy \div base, radix, base, power)
ToRadixDigitsLe(x, radix) == LET bp == HalfBase(radix, radix, 1) IN RadixChunks(x, radix, bp[1], bp[2])

\* ---- src/buint/fmt.rs fmt_method!: binary / hex text assembled digit by digit from the most significant digit:
\* leading zero digits are skipped, the first non-zero digit is printed without padding, every later digit is
\* zero-padded to the full digit width (DBits / bits characters).  Result: most-significant-first radix-2^bits digits.
RECURSIVE MSDigits(_, _, _)
MSDigits(d, bits, cnt) == IF cnt = 0 THEN <<>> ELSE MSDigits(d \div P2(bits), bits, cnt - 1) \o <<d % P2(bits)>>     \* exactly cnt digits, zero padded
RECURSIVE MSDigitsMin(_, _)
MSDigitsMin(d, bits) == IF d = 0 THEN <<>> ELSE MSDigitsMin(d \div P2(bits), bits) \o <<d % P2(bits)>>                 \* no padding
RECURSIVE FmtLoop(_, _, _, _)
FmtLoop(x, bits, i, acc) ==           \* i = number of digits still to visit, from digit i-1 down to 0
    IF i = 0 THEN acc
    ELSE LET d == DigitOf(x, i - 1)
         IN IF Len(acc) = 0
            THEN FmtLoop(x, bits, i - 1, IF d # 0 THEN MSDigitsMin(d, bits) ELSE acc)
            ELSE FmtLoop(x, bits, i - 1, acc \o MSDigits(d, bits, DBits \div bits))
FmtDigits(x, bits) == LET s == FmtLoop(x, bits, N, <<>>) IN IF Len(s) = 0 THEN <<0>> ELSE s
==============================================================================
