SPECIFICATION Spec
CONSTANTS DBits = 4
          N = 2
          Radices = {3, 5, 6, 7, 10, 12, 15}
          MaxLen = 7
INVARIANT AlgsOK
CHECK_DEADLOCK FALSE
