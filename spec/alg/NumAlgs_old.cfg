SPECIFICATION Spec
CONSTANTS Wd = 8
          Fixed = FALSE
INVARIANTS NoOverflow Correct
PROPERTY Terminates
CHECK_DEADLOCK FALSE
