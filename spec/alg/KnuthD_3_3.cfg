SPECIFICATION Spec
CONSTANTS DBits = 3
          N = 3
INVARIANTS DigitsOK Correct QHatBound WindowInv
PROPERTY Terminates
CHECK_DEADLOCK FALSE
