SPECIFICATION Spec
CONSTANTS DBits = 1
          N = 5
          ByteBits = 1
          CarryVals = "all"
INVARIANTS MulOK MidOK DivOK RoundDivOK ShiftWrapOK CountOK FmtOK ConvOK
CHECK_DEADLOCK FALSE
