---------------------------- MODULE MC_DigitAlgs ----------------------------
(* every input pair (and every shift / rotate amount) of the digit-loop models against the value-level meaning *)
EXTENDS DigitAlgs, TLC
VARIABLES a, b
vars == <<a, b>>
Init == a \in Arr /\ b \in Arr
Next == UNCHANGED vars
Spec == Init /\ [][Next]_vars

Sgn(x) == IF x < 0 THEN -1 ELSE IF x > 0 THEN 1 ELSE 0
UIn(x) == x >= 0 /\ x < P2(W)
SIn(x) == x >= -P2(W - 1) /\ x < P2(W - 1)

AddSubOK ==
    /\ UAdd(a, b) = <<FromVal(Val(a) + Val(b)), ~UIn(Val(a) + Val(b))>>
    /\ USub(a, b) = <<FromVal(Val(a) - Val(b)), ~UIn(Val(a) - Val(b))>>
    /\ SAdd(a, b) = <<FromVal(SVal(a) + SVal(b)), ~SIn(SVal(a) + SVal(b))>>
    /\ SSub(a, b) = <<FromVal(SVal(a) - SVal(b)), ~SIn(SVal(a) - SVal(b))>>
    /\ \A c \in BOOLEAN : LET k == IF c THEN 1 ELSE 0 IN
         /\ CarryingAdd(UAdd, a, b, c) = <<FromVal(Val(a) + Val(b) + k), ~UIn(Val(a) + Val(b) + k)>>
         /\ BorrowingSub(USub, a, b, c) = <<FromVal(Val(a) - Val(b) - k), ~UIn(Val(a) - Val(b) - k)>>
         /\ CarryingAdd(SAdd, a, b, c) = <<FromVal(SVal(a) + SVal(b) + k), ~SIn(SVal(a) + SVal(b) + k)>>
         /\ BorrowingSub(SSub, a, b, c) = <<FromVal(SVal(a) - SVal(b) - k), ~SIn(SVal(a) - SVal(b) - k)>>
MulOK == LongMul(a, b) = <<FromVal(Val(a) * Val(b)), ~UIn(Val(a) * Val(b))>>
ShiftOK ==
    \A s \in 0..(W - 1) :
        /\ Val(ShlInternal(a, s)) = (Val(a) * P2(s)) % P2(W)
        /\ Val(ShrPad(a, s, FALSE)) = Val(a) \div P2(s)
        /\ (SVal(a) < 0 => SVal(ShrPad(a, s, TRUE)) = SVal(a) \div P2(s))      \* floor division: sign-propagating
RotOK ==
    \A n \in 0..(2 * W + 1) :
        LET r == n % W
        IN Val(RotateLeftMod(a, n)) = ((Val(a) * P2(r)) % P2(W)) + (Val(a) \div P2(W - r))
\* the pinned tree's reduction is right exactly when BITS is a power of two (kept as a negative test)
RotMaskOK ==
    \A n \in 0..(2 * W + 1) :
        LET r == n % W
        IN Val(RotateLeftMask(a, n)) = ((Val(a) * P2(r)) % P2(W)) + (Val(a) \div P2(W - r))
RECURSIVE BitLen(_)
BitLen(n) == IF n = 0 THEN 0 ELSE 1 + BitLen(n \div 2)
CountCmpOK ==
    /\ LeadingZeros(a) = W - BitLen(Val(a))
    /\ UCmp(a, b) = Sgn(Val(a) - Val(b))
    /\ SCmp(a, b) = Sgn(SVal(a) - SVal(b))
AlgsOK == AddSubOK /\ MulOK /\ ShiftOK /\ RotOK /\ CountCmpOK
=============================================================================
