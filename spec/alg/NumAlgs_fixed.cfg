SPECIFICATION Spec
CONSTANTS Wd = 8
          Fixed = TRUE
INVARIANTS NoOverflow Correct
PROPERTY Terminates
CHECK_DEADLOCK FALSE
