SPECIFICATION Spec
CONSTANTS Wd = 6
          MaxE = 15
INVARIANTS Correct NoOverflow
PROPERTY Terminates
CHECK_DEADLOCK FALSE
