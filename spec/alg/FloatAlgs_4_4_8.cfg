SPECIFICATION Spec
CONSTANTS EB = 4
          MD = 4
          Wd = 8
          Old = FALSE
INVARIANTS Correct NoLostBits
CHECK_DEADLOCK FALSE
