SPECIFICATION Spec
CONSTANTS DBits = 3
          N = 2
          ByteBits = 3
          CarryVals = "some"
INVARIANTS MulOK MidOK DivOK RoundDivOK ShiftWrapOK CountOK FmtOK ConvOK
CHECK_DEADLOCK FALSE
