SPECIFICATION Spec
CONSTANTS ByteBits = 2
          DBy = 2
          N = 1
          MaxLen = 6
INVARIANT SliceOK
CHECK_DEADLOCK FALSE
