SPECIFICATION Spec
CONSTANTS Wd = 9
          Fixed = TRUE
INVARIANTS NoOverflow Correct
PROPERTY Terminates
CHECK_DEADLOCK FALSE
