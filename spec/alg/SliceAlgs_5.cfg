SPECIFICATION Spec
CONSTANTS ByteBits = 1
          DBy = 4
          N = 2
          MaxLen = 13
INVARIANT SliceOK
CHECK_DEADLOCK FALSE
