SPECIFICATION Spec
CONSTANTS DBits = 8
          N = 1
          Radices = {3, 6, 10}
          MaxLen = 6
INVARIANT AlgsOK
CHECK_DEADLOCK FALSE
