SPECIFICATION Spec
CONSTANTS Wd = 8
          MaxE = 3
INVARIANTS NoDeepLog
CHECK_DEADLOCK FALSE
