SPECIFICATION Spec
CONSTANTS SB = 4
          M = 2
          TB = 2
          N = 4
INVARIANT CastOK
CHECK_DEADLOCK FALSE
