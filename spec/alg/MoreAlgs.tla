------------------------------ MODULE MoreAlgs ------------------------------
(***************************************************************************)
(* L3, second batch: code-shaped models of the remaining digit loops of    *)
(* bnum, in the style of DigitAlgs (which this module extends): values are *)
(* arrays 0..N-1 of native digits of DBits bits, every operator follows    *)
(* the loop of the Rust function named in its comment, and MC_MoreAlgs     *)
(* checks each against the value-level meaning for EVERY input at toy      *)
(* sizes.  Covered here:                                                   *)
(*   buint/bigint_helpers.rs  widening_mul, carrying_mul                   *)
(*   buint/mod.rs, bint/mod.rs  midpoint (Hacker's Delight 2-5 + signed    *)
(*                            fix-up), abs_diff                            *)
(*   buint/checked.rs         div_rem_digit (short division by one digit), *)
(*                            the dispatch of div_rem_unchecked,           *)
(*                            checked_next_power_of_two                    *)
(*   bint/overflowing.rs      overflowing_mul and div_rem_unchecked on     *)
(*                            magnitudes with re-signing                   *)
(*   buint/mod.rs             count_ones, trailing_zeros, leading_ones,    *)
(*                            trailing_ones, is_power_of_two (early exit), *)
(*                            bit, set_bit, swap_bytes, reverse_bits       *)
(*   buint/fmt.rs             fmt_method (Binary / LowerHex: per-digit     *)
(*                            text, interior digits zero-padded)           *)
(*   buint/convert.rs, bint/convert.rs  TryFrom<bnum> for a primitive      *)
(*                            (both digit-wider and digit-narrower cases)  *)
(*                            and the BTryFrom representability tests      *)
(***************************************************************************)
EXTENDS DigitAlgs

\* ---------------------------------------------------------------------------------------------
\* digit-wise logic
RECURSIVE OrNat(_, _)
OrNat(x, y) == IF x = 0 THEN y ELSE IF y = 0 THEN x ELSE (IF x % 2 = 1 \/ y % 2 = 1 THEN 1 ELSE 0) + 2 * OrNat(x \div 2, y \div 2)
XorNat(x, y) == OrNat(x, y) - AndNat(x, y)
BitAnd(a, b) == [i \in Idx |-> AndNat(a[i], b[i])]
BitXor(a, b) == [i \in Idx |-> XorNat(a[i], b[i])]
NotArr(a) == [i \in Idx |-> B - 1 - a[i]]
IsNeg(a) == a[N - 1] >= B \div 2
WNeg(a) == UAdd(NotArr(a), One)[1]                      \* wrapping negation of the pattern
IsZeroArr(a) == \A i \in Idx : a[i] = 0
MinPat == [i \in Idx |-> IF i = N - 1 THEN B \div 2 ELSE 0]

\* ---------------------------------------------------------------------------------------------
\* src/digit.rs carrying_mul(a, b, carry, current) = a * b + carry + current as (low digit, high digit)
DCarryingMul(x, y, c, d) == LET p == x * y + c + d IN <<p % B, p \div B>>

\* src/buint/bigint_helpers.rs widening_mul: row i adds a[i] * b into low[i..] and, past N, into high; the carry that
\* leaves the row is STORED (not added) into high[i], which no earlier row has written
RECURSIVE WMInner(_, _, _, _, _, _, _)
WMInner(a, b, i, j, carry, low, high) ==
    IF j = N THEN <<low, [high EXCEPT ![i] = carry]>>
    ELSE IF j < N - i
         THEN LET r == DCarryingMul(a[i], b[j], carry, low[i + j])
              IN WMInner(a, b, i, j + 1, r[2], [low EXCEPT ![i + j] = r[1]], high)
         ELSE LET r == DCarryingMul(a[i], b[j], carry, high[i + j - N])
              IN WMInner(a, b, i, j + 1, r[2], low, [high EXCEPT ![i + j - N] = r[1]])
RECURSIVE WMOuter(_, _, _, _, _)
WMOuter(a, b, i, low, high) == IF i = N THEN <<low, high>>
                               ELSE LET r == WMInner(a, b, i, 0, 0, low, high) IN WMOuter(a, b, i + 1, r[1], r[2])
WideningMul(a, b) == WMOuter(a, b, 0, Zero, Zero)
\* carrying_mul(self, rhs, carry): widening product, add the carry to the low half, propagate one into the high half
CarryingMul(a, b, c) == LET w == WideningMul(a, b)
                            s == UAdd(w[1], c)
                        IN IF s[2] THEN <<s[1], UAdd(w[2], One)[1]>> ELSE <<s[1], w[2]>>

\* ---------------------------------------------------------------------------------------------
\* midpoint: (a & b) + ((a ^ b) >> 1); signed: arithmetic shift, then +1 when the sum is negative and a ^ b is odd
UMid(a, b) == UAdd(BitAnd(a, b), ShrPad(BitXor(a, b), 1, FALSE))
SMid(a, b) == LET x == BitXor(a, b)
                  t == SAdd(BitAnd(a, b), ShrPad(x, 1, IsNeg(x)))         \* BInt `+`: must not overflow (it panics in debug)
                  fix == IsNeg(t[1]) /\ x[0] % 2 = 1
                  u == IF fix THEN SAdd(t[1], One) ELSE t
              IN <<u[1], t[2] \/ u[2]>>                                   \* <<pattern, some add overflowed>>
\* abs_diff (signed): the larger minus the smaller, wrapping, read as unsigned
SAbsDiff(a, b) == IF SCmp(a, b) < 0 THEN SSub(b, a)[1] ELSE SSub(a, b)[1]

\* ---------------------------------------------------------------------------------------------
\* src/buint/checked.rs div_rem_digit: short division from the top digit down; digit::div_rem_wide(low, high, rhs)
\* asserts high < rhs and divides the double digit
RECURSIVE DRDLoop(_, _, _, _, _, _)
DRDLoop(a, d, i, rem, out, ok) ==               \* ok: the debug_assert high < rhs held and the quotient digit fitted
    IF i = 0 THEN <<out, rem, ok>>
    ELSE LET x == a[i - 1] + B * rem
             q == x \div d
         IN DRDLoop(a, d, i - 1, x % d, [out EXCEPT ![i - 1] = q % B], ok /\ rem < d /\ q < B)
DivRemDigit(a, d) == DRDLoop(a, d, N, 0, Zero, TRUE)
\* last_digit_index
RECURSIVE LastIdx(_, _)
LastIdx(a, i) == IF i = 0 THEN 0 ELSE IF a[i] # 0 THEN i ELSE LastIdx(a, i - 1)
\* div_rem_unchecked (rhs # 0): the dispatch in front of Algorithm D; `Basecase` is the exact quotient / remainder
\* (alg/KnuthD checks the real base case); what is checked here is that every path returns the same pair
FromDigit(d) == [i \in Idx |-> IF i = 0 THEN d ELSE 0]
DivRemUnchecked(a, b) ==
    IF IsZeroArr(a) THEN <<Zero, Zero>>
    ELSE LET c == UCmp(a, b)
         IN IF c < 0 THEN <<Zero, a>>
            ELSE IF c = 0 THEN <<One, Zero>>
            ELSE IF LastIdx(b, N - 1) = 0
                 THEN LET r == DivRemDigit(a, b[0]) IN <<r[1], FromDigit(r[2])>>
                 ELSE <<FromVal(Val(a) \div Val(b)), FromVal(Val(a) % Val(b))>>

\* ---------------------------------------------------------------------------------------------
\* src/bint/overflowing.rs overflowing_mul: multiply the magnitudes, re-sign.  checked_neg(out) is None exactly for MIN.
UAbs(a) == IF IsNeg(a) THEN WNeg(a) ELSE a
SMul(a, b) ==
    LET m == LongMul(UAbs(a), UAbs(b))
        out == m[1]
        ov == m[2]
    IN IF IsNeg(a) = IsNeg(b) THEN <<out, ov \/ IsNeg(out)>>
       ELSE IF out = MinPat THEN <<out, ov>>
            ELSE <<WNeg(out), ov \/ IsNeg(out)>>
\* div_rem_unchecked (signed; rhs # 0, not MIN / -1): magnitudes divided, results negated by sign.
\* `neg` is the panicking operator: negating MIN would overflow.  Returns <<q, r, some negation overflowed>>.
SDivRem(a, b) ==
    IF a = MinPat /\ b = One THEN <<a, Zero, FALSE>>
    ELSE LET qr == DivRemUnchecked(UAbs(a), UAbs(b))
             q == qr[1]  r == qr[2]
             NegOv(x) == x = MinPat
         IN CASE ~IsNeg(a) /\ ~IsNeg(b) -> <<q, r, FALSE>>
              [] ~IsNeg(a) /\ IsNeg(b)  -> <<WNeg(q), r, NegOv(q)>>
              [] IsNeg(a) /\ ~IsNeg(b)  -> <<WNeg(q), WNeg(r), NegOv(q) \/ NegOv(r)>>
              [] IsNeg(a) /\ IsNeg(b)   -> <<q, WNeg(r), NegOv(r)>>

\* ---------------------------------------------------------------------------------------------
\* signed rounding divisions on top of div_rem_unchecked (src/bint/mod.rs, overflowing.rs, checked.rs); rhs # 0 and
\* not MIN / -1.  `add` / `sub` are the operators (they panic on overflow with debug assertions): each result is
\* <<pattern, some operator overflowed>>.
SDivFloor(a, b) == LET qr == SDivRem(a, b)
                   IN IF IsZeroArr(qr[2]) \/ IsNeg(a) = IsNeg(b) THEN <<qr[1], qr[3]>>
                      ELSE LET r == SSub(qr[1], One) IN <<r[1], qr[3] \/ r[2]>>
SDivCeil(a, b) == LET qr == SDivRem(a, b)
                  IN IF IsZeroArr(qr[2]) \/ IsNeg(a) # IsNeg(b) THEN <<qr[1], qr[3]>>
                     ELSE LET r == SAdd(qr[1], One) IN <<r[1], qr[3] \/ r[2]>>
SDivEuclid(a, b) == IF a = MinPat /\ b = One THEN <<a, FALSE>>
                    ELSE LET qr == SDivRem(a, b)
                         IN IF IsNeg(a) /\ ~IsZeroArr(qr[2])
                            THEN LET r == IF IsNeg(b) THEN SAdd(qr[1], One) ELSE SSub(qr[1], One) IN <<r[1], qr[3] \/ r[2]>>
                            ELSE <<qr[1], qr[3]>>
SRemEuclid(a, b) == LET qr == SDivRem(a, b)
                        rem == qr[2]
                    IN IF IsNeg(rem) THEN (IF IsNeg(b) THEN SSub(rem, b)[1] ELSE SAdd(rem, b)[1]) ELSE rem       \* wrapping_sub / wrapping_add
\* next_multiple_of: <<pattern, the final operator overflowed (panic in debug, wrap in release), an inner operator overflowed (never)>>
SNextMultipleOf(a, b) == LET rem == SRemEuclid(a, b)
                         IN IF IsZeroArr(rem) THEN <<a, FALSE, FALSE>>
                            ELSE IF IsNeg(rem) = IsNeg(b)
                                 THEN LET d == SSub(b, rem)  r == SAdd(a, d[1]) IN <<r[1], r[2], d[2]>>
                                 ELSE LET r == SSub(a, rem) IN <<r[1], r[2], FALSE>>
\* unsigned: div_ceil and next_multiple_of
UDivCeil(a, b) == LET qr == DivRemUnchecked(a, b) IN IF IsZeroArr(qr[2]) THEN <<qr[1], FALSE>> ELSE UAdd(qr[1], One)
UNextMultipleOf(a, b) == LET rem == DivRemUnchecked(a, b)[2]
                         IN IF IsZeroArr(rem) THEN <<a, FALSE, FALSE>>
                            ELSE LET d == USub(b, rem)  r == UAdd(a, d[1]) IN <<r[1], r[2], d[2]>>

\* ---------------------------------------------------------------------------------------------
\* shift wrappers (src/buint/overflowing.rs, checked.rs, src/bint/overflowing.rs, mod.rs): the amount is compared with
\* BITS; out-of-range amounts are reduced with `rhs & (BITS - 1)` before the unsafe internal shift, whose contract is
\* rhs < BITS.  Results: <<pattern, flag, the internal routine's precondition held>>.
OvShl(a, rhs) == IF rhs >= W THEN <<ShlInternal(a, AndNat(rhs, W - 1)), TRUE, AndNat(rhs, W - 1) < W>>
                 ELSE <<ShlInternal(a, rhs), FALSE, TRUE>>
OvShrU(a, rhs) == IF rhs >= W THEN <<ShrPad(a, AndNat(rhs, W - 1), FALSE), TRUE, AndNat(rhs, W - 1) < W>>
                  ELSE <<ShrPad(a, rhs, FALSE), FALSE, TRUE>>
OvShrS(a, rhs) == LET sh == IF rhs >= W THEN AndNat(rhs, W - 1) ELSE rhs
                  IN <<ShrPad(a, sh, IsNeg(a)), rhs >= W, sh < W>>
CheckedShl(a, rhs) == IF rhs >= W THEN <<FALSE, Zero>> ELSE <<TRUE, ShlInternal(a, rhs)>>
UnboundedShrS(a, rhs) == IF rhs >= W THEN (IF IsNeg(a) THEN NotArr(Zero) ELSE Zero) ELSE ShrPad(a, rhs, IsNeg(a))
UnboundedShl(a, rhs) == IF rhs >= W THEN Zero ELSE ShlInternal(a, rhs)

\* ---------------------------------------------------------------------------------------------
\* counting loops (src/buint/mod.rs)
RECURSIVE PopD(_)
PopD(d) == IF d = 0 THEN 0 ELSE (d % 2) + PopD(d \div 2)
RECURSIVE TzD(_, _)
TzD(d, k) == IF k = 0 \/ d % 2 = 1 THEN 0 ELSE 1 + TzD(d \div 2, k - 1)          \* trailing zeros of a digit (DBits for 0)
ToD(d) == TzD(B - 1 - d, DBits)                                                    \* trailing ones
LoD(d) == LzDigit(B - 1 - d, DBits)                                                \* leading ones
RECURSIVE CountOnesLoop(_, _, _)
CountOnesLoop(a, i, acc) == IF i = N THEN acc ELSE CountOnesLoop(a, i + 1, acc + PopD(a[i]))
CountOnes(a) == CountOnesLoop(a, 0, 0)
RECURSIVE TrailingZerosLoop(_, _, _)
TrailingZerosLoop(a, i, acc) == IF i = N THEN acc
                                ELSE IF a[i] # 0 THEN acc + TzD(a[i], DBits) ELSE TrailingZerosLoop(a, i + 1, acc + DBits)
TrailingZeros(a) == TrailingZerosLoop(a, 0, 0)
RECURSIVE TrailingOnesLoop(_, _, _)
TrailingOnesLoop(a, i, acc) == IF i = N THEN acc
                               ELSE IF a[i] # B - 1 THEN acc + ToD(a[i]) ELSE TrailingOnesLoop(a, i + 1, acc + DBits)
TrailingOnes(a) == TrailingOnesLoop(a, 0, 0)
RECURSIVE LeadingOnesLoop(_, _, _)
LeadingOnesLoop(a, i, acc) == IF i = 0 THEN acc
                              ELSE IF a[i - 1] # B - 1 THEN acc + LoD(a[i - 1]) ELSE LeadingOnesLoop(a, i - 1, acc + DBits)
LeadingOnes(a) == LeadingOnesLoop(a, N, 0)
\* is_power_of_two: running popcount with an early `return false` once it exceeds one
RECURSIVE IsPow2Loop(_, _, _)
IsPow2Loop(a, i, ones) == IF i = N THEN ones = 1
                          ELSE LET o == ones + PopD(a[i]) IN IF o > 1 THEN FALSE ELSE IsPow2Loop(a, i + 1, o)
IsPowerOfTwo(a) == IsPow2Loop(a, 0, 0)
\* checked_next_power_of_two: Some(self) for a power of two; None when bits() = BITS; else power_of_two(bits())
Bits(a) == W - LeadingZeros(a)
PowerOfTwo(k) == [i \in Idx |-> IF i = k \div DBits THEN P2(k % DBits) ELSE 0]
CheckedNextPow2(a) == IF IsPowerOfTwo(a) THEN <<TRUE, a>>
                      ELSE IF Bits(a) = W THEN <<FALSE, Zero>> ELSE <<TRUE, PowerOfTwo(Bits(a))>>
\* bit / set_bit: digit index = index >> BIT_SHIFT, bit index = index & (BITS - 1)
BitOf(a, k) == (a[k \div DBits] \div P2(k % DBits)) % 2 = 1
SetBitArr(a, k, v) == LET d == a[k \div DBits]
                          sh == k % DBits
                          cleared == d - (IF (d \div P2(sh)) % 2 = 1 THEN P2(sh) ELSE 0)       \* d & !(1 << sh)
                      IN [a EXCEPT ![k \div DBits] = cleared + (IF v THEN P2(sh) ELSE 0)]

\* swap_bytes / reverse_bits: digit order reversed, each digit byte-swapped / bit-reversed.  A "byte" of the toy
\* digit is ByteBits bits wide (DBits is a multiple of it).
CONSTANT ByteBits
RECURSIVE RevGroups(_, _, _)
RevGroups(d, g, k) == IF k = 0 THEN 0 ELSE (d % P2(g)) * P2(g * (k - 1)) + RevGroups(d \div P2(g), g, k - 1)
SwapBytesD(d) == RevGroups(d, ByteBits, DBits \div ByteBits)
RevBitsD(d) == RevGroups(d, 1, DBits)
SwapBytes(a) == [i \in Idx |-> SwapBytesD(a[N - 1 - i])]
ReverseBits(a) == [i \in Idx |-> RevBitsD(a[N - 1 - i])]

\* ---------------------------------------------------------------------------------------------
\* src/buint/fmt.rs fmt_method (Binary, LowerHex): digits from the top; nothing is written until the first non-zero
\* digit, which is written without padding; every later digit is written zero-padded to the digit's full width.
\* The text is a sequence of base-R numerals, R = 2^RBits, RBits dividing DBits (hex on toy digits: RBits = 2 with
\* DBits = 4 plays the part of 4 with 64).
RECURSIVE NumeralRec(_, _)
NumeralRec(x, r) == IF x < r THEN <<x>> ELSE Append(NumeralRec(x \div r, r), x % r)             \* MS digit first, no padding
RECURSIVE PadTo(_, _)
PadTo(s, n) == IF Len(s) >= n THEN s ELSE PadTo(<<0>> \o s, n)
RECURSIVE FmtLoop(_, _, _, _)
FmtLoop(a, i, rbits, str) ==
    IF i = 0 THEN (IF str = <<>> THEN <<0>> ELSE str)
    ELSE LET d == a[i - 1]
         IN IF str = <<>>
            THEN FmtLoop(a, i - 1, rbits, IF d # 0 THEN NumeralRec(d, P2(rbits)) ELSE <<>>)
            ELSE FmtLoop(a, i - 1, rbits, str \o PadTo(NumeralRec(d, P2(rbits)), DBits \div rbits))
FmtDigits(a, rbits) == FmtLoop(a, N, rbits, <<>>)

\* ---------------------------------------------------------------------------------------------
\* TryFrom<BUint<N>> for a primitive of IB bits (signed or not).  `out` is the primitive being assembled, held as its
\* IB-bit pattern; a cast `as $int` keeps the low IB bits.
PrimNeg(p, ib) == p >= P2(ib - 1)
TryFromBuint(a, ib, isigned) ==                  \* <<ok, pattern>>
    LET first == IF DBits > ib
                 THEN LET small == a[0] % P2(ib)                                         \* digit as $int
                          \* small as $Digit: zero-extended for an unsigned $int, sign-extended for a signed one
                          trunc == IF isigned /\ PrimNeg(small, ib) THEN small + (B - P2(ib)) ELSE small
                      IN <<a[0] = trunc, small, 1>>
                 ELSE LET RECURSIVE L(_, _)
                          L(i, out) == IF i >= N \/ i * DBits >= ib THEN <<TRUE, out, i>>
                                       ELSE L(i + 1, OrNat(out, (a[i] * P2(i * DBits)) % P2(ib)))
                      IN L(0, 0)
    IN IF ~first[1] THEN <<FALSE, 0>>
       ELSE IF isigned /\ PrimNeg(first[2], ib) THEN <<FALSE, 0>>                        \* out < 0
       ELSE IF \E i \in Idx : i >= first[3] /\ a[i] # 0 THEN <<FALSE, 0>>
       ELSE <<TRUE, first[2]>>
\* TryFrom<BInt<N>> for a signed primitive of IB bits
TryFromBint(a, ib) ==
    LET neg == IsNeg(a)
        padding == IF neg THEN B - 1 ELSE 0
        ones == P2(ib) - 1
        first == IF DBits > ib
                 THEN LET small == a[0] % P2(ib)
                          trunc == IF PrimNeg(small, ib) THEN small + (B - P2(ib)) ELSE small
                      IN <<a[0] = trunc, small, 1>>
                 ELSE LET RECURSIVE L(_, _)
                          L(i, out) == IF i >= N \/ i * DBits >= ib THEN <<TRUE, out, i>>
                                       ELSE IF neg
                                            \* out &= !((!digit) as $int << shift)
                                            THEN L(i + 1, AndNat(out, ones - (((B - 1 - a[i]) * P2(i * DBits)) % P2(ib))))
                                            ELSE L(i + 1, OrNat(out, (a[i] * P2(i * DBits)) % P2(ib)))
                      IN L(0, IF neg THEN ones ELSE 0)
    IN IF ~first[1] THEN <<FALSE, 0>>
       ELSE IF \E i \in Idx : i >= first[3] /\ a[i] # padding THEN <<FALSE, 0>>
       ELSE IF PrimNeg(first[2], ib) # neg THEN <<FALSE, 0>>
       ELSE <<TRUE, first[2]>>
\* BTryFrom between bnum integers: representability by bit counts (FB = source bits = W here, TB = target bits)
UFromU(a, tb) == W <= tb \/ W - LeadingZeros(a) <= tb
UFromI(a, tb) == ~IsNeg(a) /\ (W - 1 <= tb \/ W - LeadingZeros(a) <= tb)
IFromU(a, tb) == W <= tb - 1 \/ W - LeadingZeros(a) <= tb - 1
IFromI(a, tb) == IF W <= tb THEN TRUE
                 ELSE IF IsNeg(a) THEN W - LeadingOnes(a) <= tb - 1 ELSE W - LeadingZeros(a) <= tb - 1
==============================================================================
