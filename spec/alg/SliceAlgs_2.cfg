SPECIFICATION Spec
CONSTANTS ByteBits = 2
          DBy = 1
          N = 3
          MaxLen = 8
INVARIANT SliceOK
CHECK_DEADLOCK FALSE
