SPECIFICATION Spec
CONSTANTS Wd = 10
          MaxE = 23
INVARIANTS Correct NoOverflow
PROPERTY Terminates
CHECK_DEADLOCK FALSE
