SPECIFICATION Spec
CONSTANTS SB = 4
          M = 2
          TB = 2
          N = 3
INVARIANT CastOK
CHECK_DEADLOCK FALSE
