---------------------------- MODULE MC_ParseAlgs ----------------------------
(* every digit string up to MaxLen over the alphabet 0..radix, both digit orders, every radix of Radices *)
EXTENDS ParseAlgs, TLC
CONSTANTS Radices, MaxLen
VARIABLES ds, rdx
vars == <<ds, rdx>>
\* strings up to MaxLen symbols, fewer for large radices (at most about 10^5 strings per radix)
RECURSIVE LenFor(_, _)
LenFor(r, n) == IF n = 1 \/ PowI(r + 1, n) <= 100000 THEN n ELSE LenFor(r, n - 1)
Init == rdx \in Radices /\ ds \in UNION {[1..n -> 0..rdx] : n \in 1..LenFor(rdx, MaxLen)}
Next == UNCHANGED vars
Spec == Init /\ [][Next]_vars

ParseOK ==
    LET be == ParseGeneral(ds, TRUE, rdx)
        le == ParseGeneral(Reverse(ds), FALSE, rdx)
    IN /\ be[1] \in Allowed(ds, rdx) /\ ~be[2]
       /\ le[1] \in Allowed(ds, rdx) /\ ~le[2]
\* the signed wrapper on top of the big-endian parser (strings are big-endian)
SignedOK ==
    \A neg \in BOOLEAN : SignedWrap(ParseGeneral(ds, TRUE, rdx)[1], neg) \in SignedAllowed(ds, rdx, neg)
AlgsOK == ParseOK /\ SignedOK
\* vacuity probes (must be refuted)
NoCarryPath == ~(AllValid(ds, rdx) /\ LET bp == RadixBase(rdx) IN Len(ds) > bp[2] /\ Horner(SubSeq(ds, 1, Len(ds) - bp[2]), rdx, 1, 0) * bp[1] >= Cap)
NoAddOverflow == ~(AllValid(ds, rdx) /\ ParseGeneral(ds, TRUE, rdx)[1] = ErrOverflow
                   /\ LET bp == RadixBase(rdx) IN Len(ds) > bp[2] /\ Horner(SubSeq(ds, 1, Len(ds) - bp[2]), rdx, 1, 0) * bp[1] < Cap)
NoLooseKind == ~(~AllValid(ds, rdx) /\ ParseGeneral(ds, TRUE, rdx)[1] = ErrOverflow)     \* an invalid string reported as overflow
NoMinMagnitude == ~(AllValid(ds, rdx) /\ Horner(ds, rdx, 1, 0) = Cap \div 2)             \* -2^(W-1) is accepted, +2^(W-1) is not
=============================================================================
