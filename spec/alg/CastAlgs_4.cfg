SPECIFICATION Spec
CONSTANTS SB = 2
          M = 5
          TB = 4
          N = 2
INVARIANT CastOK
CHECK_DEADLOCK FALSE
