SPECIFICATION Spec
CONSTANTS DBits = 2
          N = 4
INVARIANT AlgsOK
CHECK_DEADLOCK FALSE
