SPECIFICATION Spec
CONSTANTS DBits = 4
          N = 2
INVARIANTS DigitsOK Correct QHatBound WindowInv
PROPERTY Terminates
CHECK_DEADLOCK FALSE
