SPECIFICATION Spec
CONSTANTS DBits = 2
          N = 3
INVARIANT RotMaskOK
CHECK_DEADLOCK FALSE
