SPECIFICATION Spec
CONSTANTS SB = 4
          M = 2
          TB = 1
          N = 11
INVARIANT CastOK
CHECK_DEADLOCK FALSE
