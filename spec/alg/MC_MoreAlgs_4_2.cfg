SPECIFICATION Spec
CONSTANTS DBits = 4
          N = 2
          ByteBits = 2
          CarryVals = "some"
INVARIANTS MulOK MidOK DivOK RoundDivOK ShiftWrapOK CountOK FmtOK ConvOK
CHECK_DEADLOCK FALSE
