SPECIFICATION Spec
CONSTANTS DBits = 2
          N = 3
          ByteBits = 1
          CarryVals = "some"
INVARIANT NoCarryOut
CHECK_DEADLOCK FALSE
