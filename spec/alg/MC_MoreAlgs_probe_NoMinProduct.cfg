SPECIFICATION Spec
CONSTANTS DBits = 2
          N = 3
          ByteBits = 1
          CarryVals = "some"
INVARIANT NoMinProduct
CHECK_DEADLOCK FALSE
