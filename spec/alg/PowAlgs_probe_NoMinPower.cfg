SPECIFICATION Spec
CONSTANTS Wd = 6
          MaxE = 15
INVARIANTS NoMinPower
CHECK_DEADLOCK FALSE
