SPECIFICATION Spec
CONSTANTS SB = 2
          M = 4
          TB = 4
          N = 2
INVARIANT CastOK
CHECK_DEADLOCK FALSE
