SPECIFICATION Spec
CONSTANTS EB = 3
          MD = 3
          Wd = 10
          Old = FALSE
INVARIANTS NoCarry
CHECK_DEADLOCK FALSE
