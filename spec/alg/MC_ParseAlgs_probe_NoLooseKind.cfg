SPECIFICATION Spec
CONSTANTS DBits = 4
          N = 2
          Radices = {3, 10}
          MaxLen = 6
INVARIANT NoLooseKind
CHECK_DEADLOCK FALSE
