SPECIFICATION Spec
CONSTANTS DBits = 2
          N = 4
INVARIANT RotMaskOK
CHECK_DEADLOCK FALSE
