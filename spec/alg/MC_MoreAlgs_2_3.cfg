SPECIFICATION Spec
CONSTANTS DBits = 2
          N = 3
          ByteBits = 1
          CarryVals = "all"
INVARIANTS MulOK MidOK DivOK RoundDivOK ShiftWrapOK CountOK FmtOK ConvOK
CHECK_DEADLOCK FALSE
