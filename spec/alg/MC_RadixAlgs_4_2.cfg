SPECIFICATION Spec
CONSTANTS DBits = 4
          N = 2
          Log2R = 2
          MaxLen = 6
          OutRadices = {2, 4, 8, 16, 3, 5, 10}
INVARIANT AlgsOK
CHECK_DEADLOCK FALSE
