SPECIFICATION Spec
CONSTANTS DBits = 1
          N = 6
INVARIANTS DigitsOK Correct QHatBound WindowInv
PROPERTY Terminates
CHECK_DEADLOCK FALSE
