SPECIFICATION Spec
CONSTANTS DBits = 2
          N = 4
INVARIANTS DigitsOK Correct QHatBound WindowInv
PROPERTY Terminates
CHECK_DEADLOCK FALSE
