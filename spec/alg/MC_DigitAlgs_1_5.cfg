SPECIFICATION Spec
CONSTANTS DBits = 1
          N = 5
INVARIANT AlgsOK
CHECK_DEADLOCK FALSE
