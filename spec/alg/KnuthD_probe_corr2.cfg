SPECIFICATION Spec
CONSTANTS DBits = 3
          N = 3
INVARIANTS NoCorr2
CHECK_DEADLOCK FALSE
