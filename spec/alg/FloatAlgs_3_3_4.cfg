SPECIFICATION Spec
CONSTANTS EB = 3
          MD = 3
          Wd = 4
          Old = FALSE
INVARIANTS Correct NoLostBits
CHECK_DEADLOCK FALSE
