SPECIFICATION Spec
CONSTANTS DBits = 3
          N = 3
INVARIANTS NoCorr1
CHECK_DEADLOCK FALSE
