SPECIFICATION Spec
CONSTANTS ByteBits = 2
          DBy = 2
          N = 2
          MaxLen = 9
INVARIANT SliceOK
CHECK_DEADLOCK FALSE
