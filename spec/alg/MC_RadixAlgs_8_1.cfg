SPECIFICATION Spec
CONSTANTS DBits = 8
          N = 1
          Log2R = 1
          MaxLen = 10
          OutRadices = {2, 4, 8, 16, 32, 64, 128, 3, 7, 10, 36, 100}
INVARIANT AlgsOK
CHECK_DEADLOCK FALSE
