SPECIFICATION Spec
CONSTANTS EB = 3
          MD = 5
          Wd = 9
          Old = FALSE
INVARIANTS Correct NoLostBits
CHECK_DEADLOCK FALSE
