SPECIFICATION Spec
CONSTANTS SB = 8
          M = 1
          TB = 2
          N = 5
INVARIANT CastOK
CHECK_DEADLOCK FALSE
