------------------------------ MODULE FixedInt ------------------------------
(***************************************************************************)
(* L2 core: fixed-width two's-complement integer types over exact          *)
(* integers, and the outcome vocabulary shared by the machine, the trace   *)
(* specification and the generators.                                        *)
(*                                                                         *)
(* A type is a record [w |-> bit width, s |-> signed?].  It deliberately   *)
(* has no digit type: results must not depend on it (property C16).        *)
(* A value of type T is an exact integer (BigInt) in MinOf(T)..MaxOf(T).   *)
(* Its encoding Enc(T, x) is the little-endian array of w/DB digits of its *)
(* two's-complement bit pattern; with Base = 256 that is the byte array    *)
(* the harness reads out of bnum's digits().                               *)
(***************************************************************************)
EXTENDS BigInt

Ty(w, s) == [w |-> w, s |-> s]
UT(T) == [w |-> T.w, s |-> FALSE]      \* unsigned type of the same width
ST(T) == [w |-> T.w, s |-> TRUE]       \* signed type of the same width
NDig(T) == T.w \div DB                 \* digits per value (w is a multiple of DB)

TwoW(T)  == Pow2(T.w)
MaxOf(T) == IF T.s THEN ZNat(Sub(Pow2(T.w - 1), NOne)) ELSE ZNat(Sub(Pow2(T.w), NOne))
MinOf(T) == IF T.s THEN Z(TRUE, Pow2(T.w - 1)) ELSE ZZero
InRange(T, x) == IF x.neg
                 THEN T.s /\ Le(x.mag, Pow2(T.w - 1))
                 ELSE BitLen(x.mag) <= (IF T.s THEN T.w - 1 ELSE T.w)

\* bit pattern (a BigNat below 2^w) of the integer x reduced modulo 2^w
PatOf(T, x) == LET m == LowBits(x.mag, T.w)
               IN IF x.neg /\ Len(m) > 0 THEN Sub(Pow2(T.w), m) ELSE m
\* the value denoted by pattern p (a BigNat below 2^w) in type T
ValOf(T, p) == IF T.s /\ BitAt(p, T.w - 1) = 1 THEN Z(TRUE, Sub(Pow2(T.w), p)) ELSE ZNat(p)
\* the unique y in the range of T with y = x (mod 2^w)
Wrap(T, x) == ValOf(T, PatOf(T, x))
Clamp(T, x) == IF ZLt(x, MinOf(T)) THEN MinOf(T) ELSE IF ZGt(x, MaxOf(T)) THEN MaxOf(T) ELSE x

\* encodings
Enc(T, x)  == Pad(PatOf(T, x), NDig(T))
Dec(T, ds) == ValOf(T, Norm(ds))
EncPat(T, p) == Pad(p, NDig(T))

-----------------------------------------------------------------------------
\* outcomes
OVal(T, x)      == [k |-> "val", v |-> Enc(T, x)]
OPat(T, p)      == [k |-> "val", v |-> EncPat(T, p)]
OPair(T, x, f)  == [k |-> "pair", v |-> Enc(T, x), f |-> f]
OSome(T, x)     == [k |-> "some", v |-> Enc(T, x)]
ONone           == [k |-> "none"]
OPanic          == [k |-> "panic"]
OBool(b)        == [k |-> "bool", b |-> b]
ONat(n)         == [k |-> "nat", v |-> n]               \* a scalar natural (u32/usize result), canonical BigNat
OSomeNat(n)     == [k |-> "somenat", v |-> n]
OOrd(c)         == [k |-> "ord", c |-> c + 1]           \* Less/Equal/Greater as 0/1/2
OWide(T, lo, hi) == [k |-> "wide", lo |-> EncPat(T, lo), hi |-> EncPat(T, hi)]
OBytes(bs)      == [k |-> "bytes", v |-> bs]            \* strings and digit vectors
OSomeBytes(bs)  == [k |-> "somebytes", v |-> bs]
OOk(T, x)       == [k |-> "ok", v |-> Enc(T, x)]
OErr(e)         == [k |-> "err", e |-> e]

\* the "overflowing pair" of an exact result, and its projections (C01, C02, C08)
OOverflowing(T, x) == OPair(T, Wrap(T, x), ~InRange(T, x))
OChecked(T, x)     == IF InRange(T, x) THEN OSome(T, x) ELSE ONone
OWrapping(T, x)    == OVal(T, Wrap(T, x))
OSaturating(T, x)  == OVal(T, Clamp(T, x))
OStrict(T, x)      == IF InRange(T, x) THEN OVal(T, x) ELSE OPanic
\* operators and unsuffixed methods: panic on overflow with debug assertions, wrap without (C04)
OOperator(mode, T, x) == IF InRange(T, x) THEN OVal(T, x)
                         ELSE IF mode = "debug" THEN OPanic ELSE OVal(T, Wrap(T, x))
OUnchecked(T, x)   == OVal(T, x)        \* only ever evaluated when the precondition InRange(T, x) holds

\* Form names.  The operator forms are the by-value / by-reference operand combinations, the op-assign
\* forms and the const inherent twin of an operator (property C17); the nt_ forms are the num_traits
\* forwarders (property C18).  All of them must behave like the inherent form they are grouped with.
OpForms == {"op", "op_rv", "op_vr", "op_rr", "op_assign", "op_assign_ref", "op_inherent",
            "op_rr_same", "op_vr_same", "op_assign_same"}      \* the same object on both sides of the operator
CanonForm(f) == CASE f \in OpForms -> "op"
                  [] f = "nt_checked" -> "checked"
                  [] f = "nt_wrapping" -> "wrapping"
                  [] f \in {"nt_saturating", "nt_saturating2"} -> "saturating"
                  [] f = "nt_overflowing" -> "overflowing"
                  [] OTHER -> f
ByForm(ff, mode, T, x) ==
    LET f == CanonForm(ff)
    IN CASE f = "overflowing" -> OOverflowing(T, x)
         [] f = "checked"     -> OChecked(T, x)
         [] f = "wrapping"    -> OWrapping(T, x)
         [] f = "saturating"  -> OSaturating(T, x)
         [] f = "strict"      -> OStrict(T, x)
         [] f = "op"          -> OOperator(mode, T, x)
         [] f = "unchecked"   -> OUnchecked(T, x)

\* arguments: typed integers, scalars, booleans, byte strings (self-describing in the event)
ATy(arg) == [w |-> arg.w, s |-> arg.s]
AV(arg)  == Dec(ATy(arg), arg.v)          \* typed integer argument -> exact integer
AN(arg)  == arg.v                         \* scalar natural argument (canonical BigNat)
AI(arg)  == ToInt(arg.v)                  \* scalar natural known to be small
=============================================================================
