---------------------------- MODULE GenBehaviours ----------------------------
(***************************************************************************)
(* TLC as a generator of machine behaviours at real widths (spec -> impl). *)
(* Run with `tlc -simulate num=K -depth D`: every simulated behaviour is a *)
(* program of Load / Bin / Assign / Un / Sh steps chosen by TLC; its       *)
(* history -- each step with the outcome and the whole register file after *)
(* it, as the specification computes them -- is printed as one JSON line   *)
(* when the behaviour is complete.  harness/src/bin/machine.rs replays the *)
(* program on the real library, on every digit type of the width, and      *)
(* compares outcome and registers after every step.                        *)
(* The nondeterminism of each action is drawn inside the action (one       *)
(* successor per action), so simulation cost is linear in the depth.       *)
(***************************************************************************)
EXTENDS Machine, Json
CONSTANT Len0         \* number of steps per behaviour
VARIABLE hist

\* operand pool at the real width: digit-boundary patterns, sign corners, pseudo-random digits
GLcg(s) == ((s % 30011) * 31337 + 12345) % 65521
GDig(s) == LET r == GLcg(s) % 8 IN IF r = 0 THEN 0 ELSE IF r = 1 THEN Base - 1 ELSE IF r = 2 THEN 1 ELSE IF r = 3 THEN Base \div 2 ELSE GLcg(s + 7) % Base
GRnd(seed) == ValOf(T, Norm([j \in 1..NDig(T) |-> GDig(seed * 131 + j * 17)]))
Interesting ==
    {ZZero, ZOne, MinOf(T), MaxOf(T), Wrap(T, ZFromInt(-1)), Wrap(T, ZFromInt(2)), Wrap(T, ZFromInt(-2))}
    \cup {Wrap(T, ZNat(Pow2(k))) : k \in {7, 8, 15, 16, 31, 32, 63, 64} \cap 0..(MW - 1)}
    \cup {Wrap(T, ZNat(Sub(Pow2(k), NOne))) : k \in {8, 16, 32, 64} \cap 1..MW}
    \cup {GRnd(i) : i \in 1..24}
Amounts == {0, 1, 7, 8, 9, 15, 16, 17, 31, 32, 33, 63, 64, 65, MW - 1, MW, MW + 1, 2 * MW} \cap 0..(2 * MW + 1)
GenPool == [vals |-> Interesting, amounts |-> Amounts]
PowExps == {0, 1, 2, 3, 4, 5, 7, 8, 15, 16, 31, 32, 33, 63, 64, MW - 1, MW, MW + 1}
BitIdx == {0, 1, 7, 8, 9, 15, 16, 17, 31, 32, 33, 63, 64, 65, MW - 2, MW - 1} \cap 0..(MW - 1)

Pick(S) == RandomElement(S)
RegsEnc(rg) == [r \in Regs |-> Enc(T, rg[r])]
Rec(kind, m, d, x, y, k, c) ==
    [a |-> kind, m |-> m, d |-> d, x |-> x, y |-> y, k |-> k, c |-> c, o |-> out', regs |-> RegsEnc(reg')]

SmallPool == {ZOne, MinOf(T), MaxOf(T), Wrap(T, ZFromInt(-1)), GRnd(3), GRnd(11), Wrap(T, ZNat(Sub(Pow2(8), NOne))), Wrap(T, ZFromInt(3))}
GInit == /\ \E v0 \in Pool.vals, v1 \in SmallPool, v2 \in SmallPool :
              /\ reg = [r \in Regs |-> IF r = "r0" THEN v0 ELSE IF r = "r1" THEN v1 ELSE v2]
              /\ exact = reg
         /\ ringok = [r \in Regs |-> TRUE]
         /\ out = [k |-> "none"]
         /\ steps = 0
         /\ hist = <<[a |-> "Init", m |-> "init", d |-> "r0", x |-> "r0", y |-> "r0", k |-> 0, c |-> <<>>, o |-> [k |-> "none"], regs |-> RegsEnc(reg)]>>
GNext ==
    /\ steps < Len0
    /\ \/ \E d \in {Pick(Regs)} : \E c \in {Pick(Pool.vals)} :
            Load(d, c) /\ hist' = Append(hist, Rec("Load", "load", d, d, d, 0, Enc(T, c)))
       \/ \E m \in {Pick(BinMethods)} : \E d \in {Pick(Regs)} : \E a \in {Pick(Regs)} : \E b \in {Pick(Regs)} :
            Bin(m, d, a, b) /\ hist' = Append(hist, Rec("Bin", m, d, a, b, 0, <<>>))
       \/ \E m \in {Pick(AssignMethods)} : \E d \in {Pick(Regs)} : \E b \in {Pick(Regs)} :
            Assign(m, d, b) /\ hist' = Append(hist, Rec("Assign", m, d, d, b, 0, <<>>))
       \/ \E m \in {Pick(UnMethods)} : \E d \in {Pick(Regs)} : \E a \in {Pick(Regs)} :
            Un(m, d, a) /\ hist' = Append(hist, Rec("Un", m, d, a, a, 0, <<>>))
       \/ \E m \in {Pick(ShMethods)} : \E d \in {Pick(Regs)} : \E a \in {Pick(Regs)} : \E k \in {Pick(Pool.amounts)} :
            Sh(m, d, a, k) /\ hist' = Append(hist, Rec("Sh", m, d, a, a, k, <<>>))
       \/ \E m \in {Pick({"op_shl", "op_shr"})} : \E d \in {Pick(Regs)} : \E k \in {Pick(Pool.amounts)} :
            ShAssign(m, d, k) /\ hist' = Append(hist, Rec("ShAssign", m, d, d, d, k, <<>>))
       \/ \E m \in {Pick(PowMethods)} : \E d \in {Pick(Regs)} : \E a \in {Pick(Regs)} : \E k \in {Pick(PowExps)} :
            PowAct(m, d, a, k) /\ hist' = Append(hist, Rec("Pow", m, d, a, a, k, <<>>))
       \/ \E d \in {Pick(Regs)} : \E i \in {Pick(BitIdx)} : \E v \in {Pick(BOOLEAN)} :
            SetBitAct(d, i, v) /\ hist' = Append(hist, Rec("SetBit", IF v THEN "set" ELSE "clear", d, d, d, i, <<>>))
       \/ \E m \in {Pick(RtMethods)} : \E d \in {Pick(Regs)} : \E a \in {Pick(Regs)} : \E k \in {Pick(IF m = "rt_str_radix" THEN 2..36 ELSE 2..256)} :
            Rt(m, d, a, k) /\ hist' = Append(hist, Rec("Rt", m, d, a, a, k, <<>>))
       \/ \E m \in {Pick(FoldMethods)} : \E d \in {Pick(Regs)} :
            FoldAct(m, d) /\ hist' = Append(hist, Rec("Fold", m, d, d, d, 0, <<>>))
GSpec == GInit /\ [][GNext]_<<mvars, hist>>

\* evaluated in every state of a simulated behaviour; prints the behaviour once it is complete.
\* TypeOK and RingHom are checked along the way at the real width too.
Emit == /\ TypeOK /\ RingHom
        /\ (steps = Len0 => PrintT("BEHAVIOUR " \o ToJson([w |-> MW, s |-> MS, mode |-> Mode, steps |-> hist])))
==============================================================================
