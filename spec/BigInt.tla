------------------------------- MODULE BigInt -------------------------------
(***************************************************************************)
(* L1: exact integers as sign and magnitude over BigNat.  Canonical: zero  *)
(* is [neg |-> FALSE, mag |-> <<>>].                                        *)
(***************************************************************************)
EXTENDS BigBits

Z(neg, mag) == [neg |-> (neg /\ Len(mag) > 0), mag |-> mag]
ZNat(a)  == [neg |-> FALSE, mag |-> a]
ZZero    == ZNat(<<>>)
ZOne     == ZNat(<<1>>)
ZFromInt(n) == IF n < 0 THEN Z(TRUE, FromInt(-n)) ELSE ZNat(FromInt(n))
ZToInt(x) == IF x.neg THEN -ToInt(x.mag) ELSE ToInt(x.mag)
IsInt(x) == x.neg \in BOOLEAN /\ IsNat(x.mag) /\ (x.neg => Len(x.mag) > 0)

ZIsZero(x) == Len(x.mag) = 0
ZSign(x) == IF Len(x.mag) = 0 THEN 0 ELSE IF x.neg THEN -1 ELSE 1
ZNeg(x) == Z(~x.neg, x.mag)
ZAbs(x) == ZNat(x.mag)

ZCmp(x, y) == IF x.neg /\ ~y.neg THEN -1
              ELSE IF ~x.neg /\ y.neg THEN 1
              ELSE IF x.neg THEN Cmp(y.mag, x.mag)
              ELSE Cmp(x.mag, y.mag)
ZLt(x, y) == ZCmp(x, y) < 0
ZLe(x, y) == ZCmp(x, y) <= 0
ZGt(x, y) == ZCmp(x, y) > 0
ZGe(x, y) == ZCmp(x, y) >= 0
ZMax(x, y) == IF ZGe(x, y) THEN x ELSE y
ZMin(x, y) == IF ZLe(x, y) THEN x ELSE y

ZAdd(x, y) == IF x.neg = y.neg THEN Z(x.neg, Add(x.mag, y.mag))
              ELSE IF Ge(x.mag, y.mag) THEN Z(x.neg, Sub(x.mag, y.mag))
              ELSE Z(y.neg, Sub(y.mag, x.mag))
ZSub(x, y) == ZAdd(x, ZNeg(y))
ZMul(x, y) == Z(x.neg # y.neg, Mul(x.mag, y.mag))

\* truncated division (quotient toward zero, remainder has the sign of the dividend); y # 0
ZDivTrunc(x, y) == LET qr == DivMod(x.mag, y.mag)
                   IN <<Z(x.neg # y.neg, qr[1]), Z(x.neg, qr[2])>>
\* floored division (quotient toward -infinity, remainder has the sign of the divisor)
ZDivFloor(x, y) == LET qr == ZDivTrunc(x, y)
                   IN IF ~ZIsZero(qr[2]) /\ (qr[2].neg # y.neg)
                      THEN <<ZSub(qr[1], ZOne), ZAdd(qr[2], y)>>
                      ELSE qr
\* ceiling division (quotient toward +infinity)
ZDivCeil(x, y) == LET qr == ZDivTrunc(x, y)
                  IN IF ~ZIsZero(qr[2]) /\ (qr[2].neg = y.neg)
                     THEN <<ZAdd(qr[1], ZOne), ZSub(qr[2], y)>>
                     ELSE qr
\* euclidean division (0 <= remainder < |y|)
ZDivEuclid(x, y) == LET qr == ZDivTrunc(x, y)
                    IN IF qr[2].neg
                       THEN IF y.neg THEN <<ZAdd(qr[1], ZOne), ZSub(qr[2], y)>>
                                     ELSE <<ZSub(qr[1], ZOne), ZAdd(qr[2], y)>>
                       ELSE qr

\* defining relations (used by MC_L1 and by the relational oracles)
IsDivTrunc(q, r, n, d)  == /\ ZAdd(ZMul(q, d), r) = n
                           /\ Lt(r.mag, d.mag)
                           /\ (ZIsZero(r) \/ r.neg = n.neg)
IsDivEuclid(q, r, n, d) == /\ ZAdd(ZMul(q, d), r) = n
                           /\ ~r.neg /\ Lt(r.mag, d.mag)
IsDivFloor(q, r, n, d)  == /\ ZAdd(ZMul(q, d), r) = n
                           /\ Lt(r.mag, d.mag)
                           /\ (ZIsZero(r) \/ r.neg = d.neg)
IsDivCeil(q, r, n, d)   == /\ ZAdd(ZMul(q, d), r) = n
                           /\ Lt(r.mag, d.mag)
                           /\ (ZIsZero(r) \/ r.neg # d.neg)

\* x^e, e native
ZPow(x, e) == Z(x.neg /\ e % 2 = 1, Pow(x.mag, e))

=============================================================================
