------------------------------- MODULE TextSem -------------------------------
(***************************************************************************)
(* L2: parsing (C10), radix output (C11) and the formatting traits (C12).  *)
(* Strings are sequences of byte values (UTF-8).                           *)
(***************************************************************************)
EXTENDS ConvSem

\* value of an ASCII digit character in radices up to 36; 255 when it is not alphanumeric
DigitOf(b) == IF b >= 48 /\ b <= 57 THEN b - 48
              ELSE IF b >= 97 /\ b <= 122 THEN b - 97 + 10
              ELSE IF b >= 65 /\ b <= 90 THEN b - 65 + 10
              ELSE 255
CharOf(d, upper) == IF d < 10 THEN 48 + d ELSE IF upper THEN 65 + d - 10 ELSE 97 + d - 10
AllBelow(ds, r) == \A i \in 1..Len(ds) : ds[i] < r

\* radix^L - 1 <= lim, i.e. no string of L digits can exceed lim
TooShortToOverflow(r, L, lim) == Le(Sub(Pow(FromInt(r), L), NOne), lim)

\* well-formed UTF-8?  (lead/continuation structure, overlong and surrogate exclusions as in core::str)
RECURSIVE Utf8OK(_, _)
Utf8OK(s, i) ==
    IF i > Len(s) THEN TRUE
    ELSE LET b == s[i]
             C(k) == i + k <= Len(s) /\ s[i + k] >= 128 /\ s[i + k] <= 191
         IN IF b < 128 THEN Utf8OK(s, i + 1)
            ELSE IF b >= 194 /\ b <= 223 THEN C(1) /\ Utf8OK(s, i + 2)
            ELSE IF b = 224 THEN C(1) /\ s[i + 1] >= 160 /\ C(2) /\ Utf8OK(s, i + 3)
            ELSE IF (b >= 225 /\ b <= 236) \/ b = 238 \/ b = 239 THEN C(1) /\ C(2) /\ Utf8OK(s, i + 3)
            ELSE IF b = 237 THEN C(1) /\ s[i + 1] <= 159 /\ C(2) /\ Utf8OK(s, i + 3)
            ELSE IF b = 240 THEN C(1) /\ s[i + 1] >= 144 /\ C(2) /\ C(3) /\ Utf8OK(s, i + 4)
            ELSE IF b >= 241 /\ b <= 243 THEN C(1) /\ C(2) /\ C(3) /\ Utf8OK(s, i + 4)
            ELSE IF b = 244 THEN C(1) /\ s[i + 1] <= 143 /\ C(2) /\ C(3) /\ Utf8OK(s, i + 4)
            ELSE FALSE

\* the result of parsing the byte string s (valid UTF-8) in radix r for type T:
\* an outcome, or OneOf a set of error outcomes where the property leaves the kind free
ParseStr(T, s, r) ==
    IF Len(s) = 0 THEN OErr("Empty")
    ELSE LET plus  == s[1] = 43
             minus == s[1] = 45 /\ T.s
             rest  == IF plus \/ minus THEN SubSeq(s, 2, Len(s)) ELSE s
             ds    == [i \in 1..Len(rest) |-> DigitOf(rest[i])]
             lim   == IF minus THEN MinOf(T).mag ELSE MaxOf(T).mag
             ovf   == IF minus THEN OErr("NegOverflow") ELSE OErr("PosOverflow")
         IN IF Len(rest) = 0 THEN OErr("InvalidDigit")
            ELSE IF AllBelow(ds, r)
                 THEN LET m == Horner(ds, r)
                      IN IF Le(m, lim) THEN OOk(T, Z(minus, m)) ELSE ovf
            ELSE IF TooShortToOverflow(r, Len(rest), lim) THEN OErr("InvalidDigit")
            ELSE OneOf({OErr("InvalidDigit"), ovf})

IsErrLike(x) == x.k = "err" \/ x.k = "oneof"

C10Exp(e) ==
    LET T == Ty(e.w, e.s)
        a == e.a
    IN CASE e.op = "parse" ->
              LET s == a[1].v
                  rbig == AN(a[2])
                  rok == IsSmall(rbig) /\ ToInt(rbig) >= 2 /\ ToInt(rbig) <= 36
                  r == ToInt(rbig)
                  utf == Utf8OK(s, 1)
                  res == ParseStr(T, s, r)
              IN [f \in Forms(e) |->
                    IF ~rok THEN Free              \* C10 speaks about radices 2..=36 only ("panic only for an out-of-range radix")
                    ELSE CASE f = "parse_bytes" -> IF utf /\ res.k = "ok" THEN OSome(T, Dec(T, res.v)) ELSE ONone
                           [] f = "from_str_radix" -> res
                           \* FromStr / str::parse: within the same bounds; when the drivers run on behalf of the
                           \* C17 check, they must also return exactly what from_str_radix(_, 10) returned (C17:
                           \* the trait form computes the same value as the inherent method), which matters where
                           \* C10 leaves the error kind open
                           [] f \in {"from_str", "str_parse"} ->
                                IF e.chk = "C17" /\ "from_str_radix" \in Forms(e) /\ Match(e.fo["from_str_radix"], res)
                                THEN e.fo["from_str_radix"] ELSE res
                           [] f = "parse_str_radix" -> IF res.k = "ok" THEN OVal(T, Dec(T, res.v)) ELSE Free]   \* (documented to panic; no property says so)
         [] e.op = "from_radix" ->
              LET ds == a[1].v          \* most significant first
                  rbig == AN(a[2])
                  rok == IsSmall(rbig) /\ ToInt(rbig) >= 2 /\ ToInt(rbig) <= 256
                  r == ToInt(rbig)
              IN IF ~rok THEN AllForms(e, Free)
                 ELSE IF ~AllBelow(ds, r) THEN AllForms(e, ONone)
                 ELSE LET m == Horner(ds, r)
                      IN AllForms(e, IF BitLen(m) <= T.w THEN [k |-> "some", v |-> EncPat(T, m)] ELSE ONone)

-----------------------------------------------------------------------------
\* C11
NumeralStr(x, r) == LET ds == ToRadix(x.mag, r)
                    IN (IF x.neg THEN <<45>> ELSE <<>>) \o [i \in 1..Len(ds) |-> CharOf(ds[i], FALSE)]

C11Exp(e) ==
    LET T == Ty(e.w, e.s)
        x == AV(e.a[1])
        rbig == AN(e.a[2])
        small == IsSmall(rbig)
        r == IF small THEN ToInt(rbig) ELSE 0
        okstr == small /\ r >= 2 /\ r <= 36
        okdig == small /\ r >= 2 /\ r <= 256
        be == ToRadix(PatOf(T, x), r)
    IN [f \in Forms(e) |->
          CASE f = "str" -> IF okstr THEN OBytes(NumeralStr(x, r)) ELSE Free      \* C11: "panic only for an out-of-range radix"
            [] f = "be"  -> IF okdig THEN OBytes(be) ELSE Free
            [] f = "le"  -> IF okdig THEN OBytes(RevSeq(be)) ELSE Free
            [] f = "str_roundtrip" -> OOk(T, x)
            [] f \in {"be_roundtrip", "le_roundtrip"} -> OSome(T, x)]

-----------------------------------------------------------------------------
\* C12: Rust's Formatter rules for integers (pad_integral / pad_formatted_parts)
RECURSIVE Rep(_, _)
Rep(s, n) == IF n <= 0 THEN <<>> ELSE s \o Rep(s, n - 1)
AsciiOf(ds, upper) == [i \in 1..Len(ds) |-> CharOf(ds[i], upper)]
\* number of characters of a UTF-8 byte string: bytes that are not continuation bytes
RECURSIVE CharCount(_, _)
CharCount(s, i) == IF i > Len(s) THEN 0 ELSE (IF s[i] >= 128 /\ s[i] <= 191 THEN 0 ELSE 1) + CharCount(s, i + 1)

RECURSIVE StripTrailingZeros(_)
StripTrailingZeros(ds) == IF Len(ds) > 1 /\ ds[Len(ds)] = 0 THEN StripTrailingZeros(SubSeq(ds, 1, Len(ds) - 1)) ELSE ds

\* d.ddde<k> with trailing zeros of the mantissa trimmed
ExpBody(mag, upper) ==
    LET ds == ToRadix(mag, 10)
        k  == Len(ds) - 1
        m  == StripTrailingZeros(ds)
        mant == IF Len(m) = 1 THEN <<48 + m[1]>> ELSE <<48 + m[1], 46>> \o [i \in 1..(Len(m) - 1) |-> 48 + m[i + 1]]
        kd == ToRadix(FromInt(k), 10)
    IN mant \o <<IF upper THEN 69 ELSE 101>> \o [i \in 1..Len(kd) |-> 48 + kd[i]]

FmtText(T, x, tr, plus, alt, zero, fillb, align, haswidth, width) ==
    LET pat == PatOf(T, x)
        signed10 == tr \in {"Display", "Debug", "LowerExp", "UpperExp"}
        nonneg == IF signed10 THEN ~x.neg ELSE TRUE
        sign == IF ~nonneg THEN <<45>> ELSE IF plus THEN <<43>> ELSE <<>>
        prefix == IF ~alt THEN <<>>
                  ELSE CASE tr = "Binary" -> <<48, 98>>
                         [] tr = "Octal" -> <<48, 111>>
                         [] tr \in {"LowerHex", "UpperHex"} -> <<48, 120>>
                         [] OTHER -> <<>>
        body == CASE tr \in {"Display", "Debug"} -> AsciiOf(ToRadix(x.mag, 10), FALSE)
                  [] tr = "Binary"   -> AsciiOf(ToRadix(pat, 2), FALSE)
                  [] tr = "Octal"    -> AsciiOf(ToRadix(pat, 8), FALSE)
                  [] tr = "LowerHex" -> AsciiOf(ToRadix(pat, 16), FALSE)
                  [] tr = "UpperHex" -> AsciiOf(ToRadix(pat, 16), TRUE)
                  [] tr = "LowerExp" -> ExpBody(x.mag, FALSE)
                  [] tr = "UpperExp" -> ExpBody(x.mag, TRUE)
        core == sign \o prefix \o body
        len == Len(core)
        fill == IF Len(fillb) = 0 THEN <<32>> ELSE fillb
    IN IF ~haswidth \/ width <= len THEN core
       ELSE IF zero THEN sign \o prefix \o Rep(<<48>>, width - len) \o body
       ELSE LET pad == width - len
                pre == CASE align = "<" -> 0
                         [] align = "^" -> pad \div 2
                         [] OTHER -> pad            \* ">" and the default for numbers
            IN Rep(fill, pre) \o core \o Rep(fill, pad - pre)

C12Exp(e) ==
    LET T == Ty(e.w, e.s)
        a == e.a
        haswidth == ~a[8].neg
    IN AllForms(e, OBytes(FmtText(T, AV(a[1]), a[2].v, a[3].b, a[4].b, a[5].b, a[6].v, a[7].v, haswidth, IF haswidth THEN ToInt(a[8].v) ELSE 0)))
=============================================================================
