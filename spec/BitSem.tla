------------------------------- MODULE BitSem -------------------------------
(***************************************************************************)
(* L2: the bit-pattern view (property C06) and comparison / equality /     *)
(* hashing (property C07).                                                 *)
(***************************************************************************)
EXTENDS ShiftSem

PatDigits(T, x) == Pad(PatOf(T, x), NDig(T))      \* fixed-length digit array of the pattern
NatOfPat(ds) == Norm(ds)

\* counts on the w-bit pattern p (a BigNat < 2^w)
LeadingZeros(T, p)  == T.w - BitLen(p)
TrailingZerosW(T, p) == IF Len(p) = 0 THEN T.w ELSE TrailingZeros(p)
Compl(T, p) == Sub(Sub(Pow2(T.w), NOne), p)       \* bitwise complement within w bits
CountOnes(T, p) == PopCount(p)

\* reverse the order of the w bits / of the w/8 bytes
RECURSIVE RevBitsRec(_, _, _, _)
RevBitsRec(p, w, i, acc) == IF i = w THEN acc
                            ELSE RevBitsRec(p, w, i + 1, IF BitAt(p, i) = 1 THEN Add(acc, Pow2(w - 1 - i)) ELSE acc)
RevBitsDef(T, p) == RevBitsRec(p, T.w, 0, NZero)
\* the same permutation digit by digit: digit i of the result is the bit-reversed digit n+1-i
\* (MC_L2 checks RevBits = RevBitsDef and RevBytes = RevBytesDef for all patterns at toy sizes)
RevBits(T, p) == LET n == NDig(T)  d == Pad(p, n)
                 IN Norm([i \in 1..n |-> RevInt(d[n + 1 - i], DB)])
\* bytes: groups of 8 bits; expressed on bits so that it is independent of Base
RECURSIVE RevBytesRec(_, _, _, _)
RevBytesRec(p, nb, i, acc) ==     \* byte i (0-based, LS first) moves to byte nb-1-i
    IF i = nb THEN acc
    ELSE RevBytesRec(p, nb, i + 1, Add(acc, ShlBits(LowBits(ShrBits(p, 8 * i), 8), 8 * (nb - 1 - i))))
RevBytesDef(T, p) == RevBytesRec(p, T.w \div 8, 0, NZero)
RevBytes(T, p) == IF DB = 8 THEN LET n == NDig(T)  d == Pad(p, n) IN Norm([i \in 1..n |-> d[n + 1 - i]])
                  ELSE RevBytesDef(T, p)

SetBit(T, p, i, v) == LET cur == BitAt(p, i)
                      IN IF v /\ cur = 0 THEN Add(p, Pow2(i))
                         ELSE IF ~v /\ cur = 1 THEN Sub(p, Pow2(i))
                         ELSE p

C06Exp(e) ==
    LET T == Ty(e.w, e.s)
        a == e.a
        op == e.op
        P(k) == PatOf(T, AV(a[k]))
    IN CASE op = "bitand" -> AllForms(e, OPat(T, NatOfPat(AndPat(PatDigits(T, AV(a[1])), PatDigits(T, AV(a[2]))))))
         [] op = "bitor"  -> AllForms(e, OPat(T, NatOfPat(OrPat(PatDigits(T, AV(a[1])), PatDigits(T, AV(a[2]))))))
         [] op = "bitxor" -> AllForms(e, OPat(T, NatOfPat(XorPat(PatDigits(T, AV(a[1])), PatDigits(T, AV(a[2]))))))
         [] op = "not"    -> AllForms(e, OPat(T, Compl(T, P(1))))
         [] op = "counts" ->
              LET p == P(1)  np == Compl(T, p)
              IN [f \in Forms(e) |->
                    CASE f = "count_ones"     -> ONat(FromInt(PopCount(p)))
                      [] f = "count_zeros"    -> ONat(FromInt(T.w - PopCount(p)))
                      [] f = "leading_zeros"  -> ONat(FromInt(LeadingZeros(T, p)))
                      [] f = "trailing_zeros" -> ONat(FromInt(TrailingZerosW(T, p)))
                      [] f = "leading_ones"   -> ONat(FromInt(LeadingZeros(T, np)))
                      [] f = "trailing_ones"  -> ONat(FromInt(TrailingZerosW(T, np)))
                      [] f = "bits"           -> ONat(FromInt(BitLen(p)))]
         [] op = "zero_one" ->
              [f \in Forms(e) |-> IF f = "is_zero" THEN OBool(ZIsZero(AV(a[1]))) ELSE OBool(AV(a[1]) = ZOne)]
         [] op = "swap_bytes"   -> AllForms(e, OPat(T, RevBytes(T, P(1))))
         [] op = "reverse_bits" -> AllForms(e, OPat(T, RevBits(T, P(1))))
         [] op = "swap_bytes_twice"   -> AllForms(e, OPat(T, P(1)))
         [] op = "reverse_bits_twice" -> AllForms(e, OPat(T, P(1)))
         [] op = "is_power_of_two" -> AllForms(e, OBool(~AV(a[1]).neg /\ IsPow2(AV(a[1]).mag)))
         [] op = "next_power_of_two" ->
              LET np == NextPow2(AV(a[1]))
              IN [f \in Forms(e) |-> IF f = "checked" THEN OChecked(T, np) ELSE OWrapping(T, np)]
         [] op = "bit" -> IF AmtInRange(T, AN(a[2])) THEN AllForms(e, OBool(BitAt(P(1), AI(a[2])) = 1)) ELSE AllForms(e, Free)
         [] op = "set_bit" -> IF AmtInRange(T, AN(a[2])) THEN AllForms(e, OPat(T, SetBit(T, P(1), AI(a[2]), a[3].b))) ELSE AllForms(e, Free)
         [] op = "power_of_two" -> IF AmtInRange(T, AN(a[1])) THEN AllForms(e, OPat(T, Pow2(AI(a[1])))) ELSE AllForms(e, Free)

-----------------------------------------------------------------------------
\* C07
C07Exp(e) ==
    LET T == Ty(e.w, e.s)
        a == e.a
        op == e.op
    IN CASE op = "cmp_all" ->
              LET x == AV(a[1])  y == AV(a[2])  c == ZCmp(x, y)
              IN [f \in Forms(e) |->
                    CASE f \in {"op_eq", "eq", "trait_eq"} -> OBool(c = 0)
                      [] f \in {"op_ne", "ne", "trait_ne"} -> OBool(c # 0)
                      [] f \in {"op_lt", "lt", "trait_lt"} -> OBool(c < 0)
                      [] f \in {"op_le", "le", "trait_le"} -> OBool(c <= 0)
                      [] f \in {"op_gt", "gt", "trait_gt"} -> OBool(c > 0)
                      [] f \in {"op_ge", "ge", "trait_ge"} -> OBool(c >= 0)
                      [] f \in {"cmp", "ord_cmp", "partial_cmp"} -> OOrd(c)
                      [] f \in {"max", "ord_max"} -> OVal(T, ZMax(x, y))
                      [] f \in {"min", "ord_min"} -> OVal(T, ZMin(x, y))
                      \* equal values hash equally; unequal values may collide
                      [] f = "hash_eq" -> IF c = 0 THEN OBool(TRUE) ELSE Free]
         [] op = "clamp" ->        \* recorded only with lo <= hi
              LET x == AV(a[1])  lo == AV(a[2])  hi == AV(a[3])
              IN AllForms(e, OVal(T, IF ZLt(x, lo) THEN lo ELSE IF ZGt(x, hi) THEN hi ELSE x))
         [] op = "sign" ->
              LET x == AV(a[1])
              IN [f \in Forms(e) |->
                    CASE f = "signum" -> OVal(T, ZFromInt(ZSign(x)))
                      [] f = "is_positive" -> OBool(ZSign(x) > 0)
                      [] f = "is_negative" -> OBool(ZSign(x) < 0)]
=============================================================================
