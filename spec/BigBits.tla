------------------------------- MODULE BigBits -------------------------------
(***************************************************************************)
(* L1 continued: bit-level view of BigNats.  Requires Base to be a power   *)
(* of two; DB is the number of bits per digit.  Fixed-length digit arrays  *)
(* ("patterns") of n digits represent bit patterns of n*DB bits.           *)
(***************************************************************************)
EXTENDS BigNat

RECURSIVE Log2Exact(_, _)
Log2Exact(n, k) == IF n = 1 THEN k ELSE IF n % 2 = 1 THEN -1 ELSE Log2Exact(n \div 2, k+1)
DB == Log2Exact(Base, 0)
ASSUME BasePow2 == DB >= 1

P2(k) == PowInt(2, k)                 \* native 2^k, k small

\* 2^k as a BigNat, k native
Pow2(k) == ShlDigits(<<P2(k % DB)>>, k \div DB)

\* a * 2^k, k native
ShlBits(a, k) == ShlDigits(MulSmall(a, P2(k % DB)), k \div DB)
\* a div 2^k
ShrBits(a, k) == LET d == ShrDigits(a, k \div DB)
                 IN IF k % DB = 0 THEN d ELSE DivModSmall(d, P2(k % DB))[1]
\* a mod 2^k
LowBits(a, k) == LET q == k \div DB
                     r == k % DB
                 IN IF q >= Len(a) THEN a
                    ELSE IF r = 0 THEN Norm(SubSeq(a, 1, q))
                    ELSE Norm([i \in 1..(q+1) |-> IF i <= q THEN a[i] ELSE a[i] % P2(r)])

\* number of significant bits of a native digit
RECURSIVE BitLenInt(_)
BitLenInt(n) == IF n = 0 THEN 0 ELSE 1 + BitLenInt(n \div 2)
\* number of significant bits (0 for zero)
BitLen(a) == IF Len(a) = 0 THEN 0 ELSE (Len(a) - 1) * DB + BitLenInt(a[Len(a)])

\* bit k (0-based) of a
BitAt(a, k) == (Dg(a, k \div DB + 1) \div P2(k % DB)) % 2

RECURSIVE TzInt(_)
TzInt(n) == IF n % 2 = 1 THEN 0 ELSE 1 + TzInt(n \div 2)       \* n # 0
RECURSIVE TzRec(_, _)
TzRec(a, i) == IF a[i] # 0 THEN (i - 1) * DB + TzInt(a[i]) ELSE TzRec(a, i+1)
\* trailing zero bits of a non-zero BigNat
TrailingZeros(a) == TzRec(a, 1)

RECURSIVE PopInt(_)
PopInt(n) == IF n = 0 THEN 0 ELSE (n % 2) + PopInt(n \div 2)
RECURSIVE PopRec(_, _)
PopRec(a, i) == IF i > Len(a) THEN 0 ELSE PopInt(a[i]) + PopRec(a, i+1)
PopCount(a) == PopRec(a, 1)

IsPow2(a) == Len(a) > 0 /\ PopCount(a) = 1

-----------------------------------------------------------------------------
\* fixed-length digit arrays
Pad(a, n) == [i \in 1..n |-> Dg(a, i)]           \* canonical or not -> exactly n digits (truncating)

RECURSIVE AndInt(_, _)
AndInt(x, y) == IF x = 0 \/ y = 0 THEN 0 ELSE (x % 2) * (y % 2) + 2 * AndInt(x \div 2, y \div 2)
OrInt(x, y)  == x + y - AndInt(x, y)
XorInt(x, y) == x + y - 2 * AndInt(x, y)

AndPat(p, q) == [i \in 1..Len(p) |-> AndInt(p[i], q[i])]
OrPat(p, q)  == [i \in 1..Len(p) |-> OrInt(p[i], q[i])]
XorPat(p, q) == [i \in 1..Len(p) |-> XorInt(p[i], q[i])]
NotPat(p)    == [i \in 1..Len(p) |-> Base - 1 - p[i]]

\* reverse the bits of a native digit of DB bits
RECURSIVE RevInt(_, _)
RevInt(x, n) == IF n = 0 THEN 0 ELSE (x % 2) * P2(n-1) + RevInt(x \div 2, n-1)

\* change of base between powers of two: digits of base Base -> list of bits (LS first)
BitsOf(a, n) == [k \in 1..n |-> BitAt(a, k-1)]

\* convert a native-int sequence of base-B2 digits (B2 a power of two <= Base... any) into a BigNat
RECURSIVE HornerRec(_, _, _, _)
HornerRec(ds, r, i, acc) ==   \* ds most-significant first, native radix r
    IF i > Len(ds) THEN acc ELSE HornerRec(ds, r, i+1, Add(MulSmall(acc, r), FromInt(ds[i])))
\* value of the digit sequence ds (most significant first) in radix r (native, r*Base < 2^30)
HornerDef(ds, r) == HornerRec(ds, r, 1, <<>>)
HornerF(bs, ds, r) == HornerDef(ds, r)       \* accelerated entry point (BigBits.class), checked by MC_Fast
Horner(ds, r) == HornerF(Base, ds, r)

\* canonical digit sequence of a in radix r, most significant first; <<0>> for zero
RECURSIVE ToRadixRec(_, _, _)
ToRadixRec(a, r, acc) == IF Len(a) = 0 THEN acc
                         ELSE LET qr == DivModSmall(a, r) IN ToRadixRec(qr[1], r, <<qr[2]>> \o acc)
ToRadixDef(a, r) == IF Len(a) = 0 THEN <<0>> ELSE ToRadixRec(a, r, <<>>)
ToRadixF(bs, a, r) == ToRadixDef(a, r)       \* accelerated entry point (BigBits.class), checked by MC_Fast
ToRadix(a, r) == ToRadixF(Base, a, r)

=============================================================================
