------------------------------ MODULE FloatSem ------------------------------
(***************************************************************************)
(* L2: IEEE-754 binary32 / binary64 <-> integer conversions (C14) and the  *)
(* num_traits FromPrimitive / ToPrimitive / AsPrimitive conversions (C19). *)
(* A float is its bit pattern, a typed unsigned integer of 32 or 64 bits.  *)
(***************************************************************************)
EXTENDS TextSem

\* format parameters from the bit width
\* binary32, binary64, and two toy formats (1+4+3 and 1+3+2 bits) on which MC_Float checks these very
\* definitions against an independent relational formulation over ALL bit patterns
FMant(fw) == CASE fw = 32 -> 23 [] fw = 64 -> 52 [] fw = 8 -> 3 [] fw = 6 -> 2       \* explicit mantissa bits p
FExpBits(fw) == CASE fw = 32 -> 8 [] fw = 64 -> 11 [] fw = 8 -> 4 [] fw = 6 -> 3
FBias(fw) == PowInt(2, FExpBits(fw) - 1) - 1
FEmax(fw) == PowInt(2, FExpBits(fw)) - 1          \* all-ones exponent field

\* decode a pattern (BigNat): sign, exponent field (native), fraction (BigNat)
FSign(fw, b) == BitAt(b, fw - 1) = 1
FExpField(fw, b) == ToInt(LowBits(ShrBits(b, FMant(fw)), FExpBits(fw)))
FFrac(fw, b) == LowBits(b, FMant(fw))
FIsNaN(fw, b) == FExpField(fw, b) = FEmax(fw) /\ ~IsZero(FFrac(fw, b))
FIsInf(fw, b) == FExpField(fw, b) = FEmax(fw) /\ IsZero(FFrac(fw, b))

\* floor of the magnitude of a finite float, as a BigNat: m * 2^e with m the significand
FTruncMag(fw, b) ==
    LET E == FExpField(fw, b)
        p == FMant(fw)
        m == IF E = 0 THEN FFrac(fw, b) ELSE Add(Pow2(p), FFrac(fw, b))
        e == (IF E = 0 THEN 1 ELSE E) - FBias(fw) - p
    IN IF e >= 0 THEN ShlBits(m, e) ELSE IF -e >= p + 2 THEN NZero ELSE ShrBits(m, -e)

\* `as`: truncate toward zero, NaN -> 0, saturate at the bounds of T (infinities to the bounds)
FloatToInt(T, fw, b) ==
    IF FIsNaN(fw, b) THEN ZZero
    ELSE IF FIsInf(fw, b) THEN (IF FSign(fw, b) THEN MinOf(T) ELSE MaxOf(T))
    ELSE Clamp(T, Z(FSign(fw, b), FTruncMag(fw, b)))

\* nearest float to the integer x, ties to the even mantissa, infinity beyond the largest finite float
IntToFloat(fw, x) ==
    LET p == FMant(fw)
        m == x.mag
        L == BitLen(m)
        sgn == IF x.neg THEN Pow2(fw - 1) ELSE NZero
    IN IF L = 0 THEN NZero
       ELSE LET shift == L - (p + 1)
                q0 == IF shift <= 0 THEN ShlBits(m, -shift) ELSE ShrBits(m, shift)
                rem == IF shift <= 0 THEN NZero ELSE LowBits(m, shift)
                half == IF shift <= 0 THEN NOne ELSE Pow2(shift - 1)
                up == shift > 0 /\ (Gt(rem, half) \/ (rem = half /\ BitAt(q0, 0) = 1))
                q1 == IF up THEN Add(q0, NOne) ELSE q0
                carry == BitLen(q1) = p + 2
                q == IF carry THEN ShrBits(q1, 1) ELSE q1
                ex == (L - 1) + (IF carry THEN 1 ELSE 0)           \* unbiased exponent
                E == ex + FBias(fw)
            IN IF E >= FEmax(fw) THEN Add(sgn, ShlBits(FromInt(FEmax(fw)), p))      \* infinity
               ELSE Add(sgn, Add(ShlBits(FromInt(E), p), Sub(q, Pow2(p))))

FT(fw) == Ty(fw, FALSE)

C14Exp(e) ==
    LET a == e.a
    IN CASE e.op = "int_to_float" ->
              LET x == AV(a[1])
              IN [f \in Forms(e) |-> IF f \in {"f32", "as_f32"} THEN OPat(FT(32), IntToFloat(32, x)) ELSE OPat(FT(64), IntToFloat(64, x))]
         [] e.op = "float_to_int" ->
              AllForms(e, OVal(ATy(a[2]), FloatToInt(ATy(a[2]), a[1].w, Norm(a[1].v))))

PrimTy(f) ==
    CASE f \in {"to_u8", "as_u8"} -> Ty(8, FALSE) [] f \in {"to_u16", "as_u16"} -> Ty(16, FALSE)
      [] f \in {"to_u32", "as_u32"} -> Ty(32, FALSE) [] f \in {"to_u64", "as_u64", "to_usize", "as_usize"} -> Ty(64, FALSE)
      [] f \in {"to_u128", "as_u128"} -> Ty(128, FALSE)
      [] f \in {"to_i8", "as_i8"} -> Ty(8, TRUE) [] f \in {"to_i16", "as_i16"} -> Ty(16, TRUE)
      [] f \in {"to_i32", "as_i32"} -> Ty(32, TRUE) [] f \in {"to_i64", "as_i64", "to_isize", "as_isize"} -> Ty(64, TRUE)
      [] f \in {"to_i128", "as_i128"} -> Ty(128, TRUE)

C19Exp(e) ==
    LET a == e.a
    IN CASE e.op = "from_prim" ->
              LET D == ATy(a[2])  x == AV(a[1])
              IN AllForms(e, IF InRange(D, x) THEN OSome(D, x) ELSE ONone)
         [] e.op = "from_float" ->
              LET D == ATy(a[2])  fw == a[1].w  b == Norm(a[1].v)
              IN IF FIsNaN(fw, b) \/ FIsInf(fw, b) THEN AllForms(e, ONone)
                 ELSE LET t == Z(FSign(fw, b), FTruncMag(fw, b))
                      IN IF ~InRange(D, t) THEN AllForms(e, ONone)
                         \* a float with the sign bit set whose truncation is 0, unsigned target: the property fixes nothing
                         ELSE IF ~D.s /\ FSign(fw, b) THEN AllForms(e, OneOf({OSome(D, ZZero), ONone}))
                         ELSE AllForms(e, OSome(D, t))
         [] e.op = "to_prim" ->
              LET x == AV(a[1])
              IN [f \in Forms(e) |->
                    CASE f = "to_f32" -> [k |-> "some", v |-> EncPat(FT(32), IntToFloat(32, x))]
                      [] f = "to_f64" -> [k |-> "some", v |-> EncPat(FT(64), IntToFloat(64, x))]
                      [] f = "as_f32" -> OPat(FT(32), IntToFloat(32, x))
                      [] f = "as_f64" -> OPat(FT(64), IntToFloat(64, x))
                      [] f \in {"to_u8","to_u16","to_u32","to_u64","to_u128","to_usize","to_i8","to_i16","to_i32","to_i64","to_i128","to_isize"} ->
                           IF InRange(PrimTy(f), x) THEN OSome(PrimTy(f), x) ELSE ONone
                      [] OTHER -> OVal(PrimTy(f), Wrap(PrimTy(f), x))]
=============================================================================
