------------------------------- MODULE BigNat -------------------------------
(***************************************************************************)
(* L1: exact natural numbers of unbounded size as little-endian sequences  *)
(* of digits in a constant Base.  TLC's own integers are 32-bit, so every  *)
(* quantity that can exceed 2^31 in the bnum specification is a BigNat.    *)
(* A BigNat is canonical: no most-significant zero digit; zero is <<>>.    *)
(* Every operator here returns canonical values when given canonical ones. *)
(* MC_L1 checks each operator against TLC's native integers at small Base. *)
(***************************************************************************)
EXTENDS Integers, Sequences

CONSTANT Base
ASSUME BaseOK == Base \in Nat /\ Base >= 2 /\ Base <= 32768

Max2(a, b) == IF a >= b THEN a ELSE b
Min2(a, b) == IF a <= b THEN a ELSE b

\* digit i of a (1-based), zero beyond the end
Dg(a, i) == IF i >= 1 /\ i <= Len(a) THEN a[i] ELSE 0

IsNat(a) == /\ a \in Seq(0..(Base-1))
            /\ (Len(a) = 0 \/ a[Len(a)] # 0)

RECURSIVE TopIdx(_, _)
TopIdx(a, i) == IF i = 0 THEN 0 ELSE IF a[i] # 0 THEN i ELSE TopIdx(a, i-1)

\* strip most-significant zero digits
Norm(a) == LET k == TopIdx(a, Len(a)) IN IF k = Len(a) THEN a ELSE SubSeq(a, 1, k)

NZero == <<>>
NOne  == <<1>>
IsZero(a) == Len(a) = 0

\* native integer -> BigNat
RECURSIVE FromInt(_)
FromInt(n) == IF n = 0 THEN <<>> ELSE <<n % Base>> \o FromInt(n \div Base)

\* BigNat -> native integer (only meaningful when the value is below 2^31)
RECURSIVE ToIntRec(_, _)
ToIntRec(a, i) == IF i > Len(a) THEN 0 ELSE a[i] + Base * ToIntRec(a, i+1)
ToInt(a) == ToIntRec(a, 1)

\* does the value fit a native integer comfortably (< 2^24)?  used to guard ToInt
RECURSIVE PowInt(_, _)
PowInt(b, e) == IF e = 0 THEN 1 ELSE b * PowInt(b, e-1)
RECURSIVE SmallLenRec(_, _)
SmallLenRec(k, p) == IF p > 16777216 \div Base THEN k ELSE SmallLenRec(k+1, p * Base)
SmallLen == SmallLenRec(0, 1)          \* number of digits that always fit below 2^24
IsSmall(a) == Len(a) <= SmallLen

-----------------------------------------------------------------------------
\* comparison: -1, 0, 1
RECURSIVE CmpRec(_, _, _)
CmpRec(a, b, i) == IF i = 0 THEN 0
                   ELSE IF a[i] < b[i] THEN -1
                   ELSE IF a[i] > b[i] THEN 1
                   ELSE CmpRec(a, b, i-1)
Cmp(a, b) == IF Len(a) < Len(b) THEN -1
             ELSE IF Len(a) > Len(b) THEN 1
             ELSE CmpRec(a, b, Len(a))
Lt(a, b) == Cmp(a, b) < 0
Le(a, b) == Cmp(a, b) <= 0
Gt(a, b) == Cmp(a, b) > 0
Ge(a, b) == Cmp(a, b) >= 0

-----------------------------------------------------------------------------
\* addition
RECURSIVE AddRec(_, _, _, _, _, _)
AddRec(a, b, n, i, c, acc) ==
    IF i > n THEN (IF c = 0 THEN acc ELSE Append(acc, c))
    ELSE LET s == Dg(a, i) + Dg(b, i) + c
         IN AddRec(a, b, n, i+1, s \div Base, Append(acc, s % Base))
AddDef(a, b) == IF Len(b) = 0 THEN a ELSE IF Len(a) = 0 THEN b
                ELSE AddRec(a, b, Max2(Len(a), Len(b)), 1, 0, <<>>)
AddF(bs, a, b) == AddDef(a, b)          \* accelerated entry point, see the note at the end of this module
Add(a, b) == AddF(Base, a, b)

\* subtraction a - b, defined for a >= b
RECURSIVE SubRec(_, _, _, _, _)
SubRec(a, b, i, br, acc) ==
    IF i > Len(a) THEN acc
    ELSE LET d == a[i] - Dg(b, i) - br
         IN IF d < 0 THEN SubRec(a, b, i+1, 1, Append(acc, d + Base))
                     ELSE SubRec(a, b, i+1, 0, Append(acc, d))
SubDef(a, b) == IF Len(b) = 0 THEN a ELSE Norm(SubRec(a, b, 1, 0, <<>>))
SubF(bs, a, b) == SubDef(a, b)
Sub(a, b) == SubF(Base, a, b)

\* |a - b|
AbsDiff(a, b) == IF Ge(a, b) THEN Sub(a, b) ELSE Sub(b, a)

-----------------------------------------------------------------------------
\* multiplication by a native integer m with 0 <= m and m * Base < 2^30
RECURSIVE CarryDigits(_)
CarryDigits(c) == IF c = 0 THEN <<>> ELSE <<c % Base>> \o CarryDigits(c \div Base)
RECURSIVE MulSmallRec(_, _, _, _, _)
MulSmallRec(a, m, i, c, acc) ==
    IF i > Len(a) THEN acc \o CarryDigits(c)
    ELSE LET s == a[i] * m + c
         IN MulSmallRec(a, m, i+1, s \div Base, Append(acc, s % Base))
MulSmall(a, m) == IF m = 0 \/ Len(a) = 0 THEN <<>>
                  ELSE IF m = 1 THEN a
                  ELSE MulSmallRec(a, m, 1, 0, <<>>)

\* a * Base^k
ShlDigits(a, k) == IF Len(a) = 0 \/ k = 0 THEN a ELSE [i \in 1..k |-> 0] \o a
\* a div Base^k
ShrDigits(a, k) == IF k >= Len(a) THEN <<>> ELSE SubSeq(a, k+1, Len(a))
\* a mod Base^k
LowDigits(a, k) == IF k >= Len(a) THEN a ELSE Norm(SubSeq(a, 1, k))

\* schoolbook product, column by column
RECURSIVE ColSum(_, _, _, _, _)
ColSum(a, b, k, i, hi) ==      \* sum of a[i]*b[k+1-i] for i in i..hi
    IF i > hi THEN 0 ELSE a[i] * b[k+1-i] + ColSum(a, b, k, i+1, hi)
RECURSIVE MulCols(_, _, _, _, _)
MulCols(a, b, k, c, acc) ==
    IF k > Len(a) + Len(b) - 1 THEN acc \o CarryDigits(c)
    ELSE LET s == ColSum(a, b, k, Max2(1, k + 1 - Len(b)), Min2(k, Len(a))) + c
         IN MulCols(a, b, k+1, s \div Base, Append(acc, s % Base))
MulDef(a, b) == IF Len(a) = 0 \/ Len(b) = 0 THEN <<>>
                ELSE IF Len(b) = 1 THEN MulSmall(a, b[1])
                ELSE IF Len(a) = 1 THEN MulSmall(b, a[1])
                ELSE MulCols(a, b, 1, 0, <<>>)
MulF(bs, a, b) == MulDef(a, b)
Mul(a, b) == MulF(Base, a, b)

-----------------------------------------------------------------------------
\* division by a native integer m with 1 <= m and m * Base < 2^30: <<quotient, remainder (native)>>
RECURSIVE DivSmallRec(_, _, _, _, _)
DivSmallRec(a, m, i, r, acc) ==     \* from the most significant digit down; acc is MS-first reversed later
    IF i = 0 THEN <<acc, r>>
    ELSE LET t == r * Base + a[i]
         IN DivSmallRec(a, m, i-1, t % m, <<t \div m>> \o acc)
DivModSmall(a, m) == LET qr == DivSmallRec(a, m, Len(a), 0, <<>>) IN <<Norm(qr[1]), qr[2]>>

\* long division.  The quotient digit is found by binary search over 0..Base-1,
\* which is slow but obviously right: the largest q with q*b <= r.
RECURSIVE QDig(_, _, _, _)
QDig(r, b, lo, hi) ==
    IF lo = hi THEN lo
    ELSE LET mid == (lo + hi + 1) \div 2
         IN IF Cmp(MulSmall(b, mid), r) <= 0 THEN QDig(r, b, mid, hi) ELSE QDig(r, b, lo, mid - 1)
RECURSIVE DivRec(_, _, _, _, _)
DivRec(a, b, i, r, q) ==
    IF i = 0 THEN <<Norm(q), r>>
    ELSE LET r1 == Norm(<<a[i]>> \o r)
             d  == IF Cmp(r1, b) < 0 THEN 0 ELSE QDig(r1, b, 1, Base - 1)
             r2 == IF d = 0 THEN r1 ELSE SubDef(r1, MulSmall(b, d))
         IN DivRec(a, b, i-1, r2, <<d>> \o q)
\* <<a div b, a mod b>> for b # 0
DivModDef(a, b) == IF Cmp(a, b) < 0 THEN <<NZero, a>>
                   ELSE IF Len(b) = 1 THEN LET qr == DivModSmall(a, b[1]) IN <<qr[1], FromInt(qr[2])>>
                   ELSE DivRec(a, b, Len(a), <<>>, <<>>)
DivModF(bs, a, b) == DivModDef(a, b)
DivMod(a, b) == DivModF(Base, a, b)
Div(a, b) == DivMod(a, b)[1]
Mod(a, b) == DivMod(a, b)[2]

\* the defining relation of quotient and remainder
IsDivMod(q, r, a, b) == /\ Add(Mul(q, b), r) = a
                        /\ Lt(r, b)

-----------------------------------------------------------------------------
\* powers with a native exponent
RECURSIVE Pow(_, _)
Pow(a, e) == IF e = 0 THEN NOne
             ELSE IF e % 2 = 0 THEN LET h == Pow(a, e \div 2) IN Mul(h, h)
             ELSE Mul(a, Pow(a, e - 1))

\* PowCapped(a, e, cap): a^e if a^e <= cap, else the token "over".  e is a BigNat
\* (exponents range up to 2^32-1).  For a >= 2 at most Len(cap)*log2(Base)
\* multiplications are performed.
Over == <<-1>>
\* square-and-multiply from the most significant exponent bit: every intermediate value is a power
\* a^(prefix of e) <= a^e (a >= 1), so a^e <= cap iff no intermediate exceeds cap.
RECURSIVE PowCapRec(_, _, _)
PowCapRec(a, e, cap) ==           \* e native
    IF e = 0 THEN NOne
    ELSE LET h == PowCapRec(a, e \div 2, cap)
         IN IF h = Over THEN Over
            ELSE LET sq == Mul(h, h)
                 IN IF Gt(sq, cap) THEN Over
                    ELSE IF e % 2 = 0 THEN sq
                    ELSE LET m == Mul(sq, a) IN IF Gt(m, cap) THEN Over ELSE m
\* bits of cap bounds the number of steps when a >= 2
PowCapped(a, e, cap) ==
    IF IsZero(e) THEN (IF Ge(cap, NOne) THEN NOne ELSE Over)
    ELSE IF IsZero(a) THEN NZero
    ELSE IF a = NOne THEN (IF Ge(cap, NOne) THEN NOne ELSE Over)
    ELSE IF ~IsSmall(e) THEN Over           \* a >= 2 and e >= 2^24: a^e has > 2^24 bits
    ELSE IF ToInt(e) > 32 * (Len(cap) + 1) THEN Over   \* a^e >= 2^e > Base^(Len(cap)+1) > cap  (Base <= 2^15 < 2^32)
    ELSE PowCapRec(a, ToInt(e), cap)

-----------------------------------------------------------------------------
(***************************************************************************)
(* Accelerated entry points.  AddF, SubF, MulF and DivModF are DEFINED     *)
(* above as the pure TLA+ operators AddDef, SubDef, MulDef and DivModDef.  *)
(* When BigNat.class (spec/java/BigNat.java, java.math.BigInteger) is on   *)
(* the library path, TLC replaces these four operators by the Java methods *)
(* of the same name.  The override changes no meaning: MC_Fast checks      *)
(* XF(Base, a, b) = XDef(a, b) exhaustively at small operands and on       *)
(* pseudo-random operands of up to 1024 bits, and every check can be run   *)
(* with VERIF_NO_OVERRIDES=1, which removes the class and evaluates the    *)
(* TLA+ definitions themselves (about 100 times slower at 1024 bits).      *)
(***************************************************************************)
=============================================================================
