------------------------------ MODULE ApaCasts ------------------------------
(***************************************************************************)
(* L3 at the REAL digit sizes, checked symbolically: the casts between     *)
(* bnum integers of different digit types (src/buint/cast.rs               *)
(* buint_as_different_digit_bigint, and the sign-extending prefill of      *)
(* src/bint/cast.rs for a negative source cast into a type with NARROWER   *)
(* digits).  alg/CastAlgs enumerates these loops at toy digit sizes with   *)
(* TLC; here the digit sizes are the real ones (8, 16, 32, 64 bits), the   *)
(* digit values are unbounded symbolic integers, and Apalache decides for  *)
(* EVERY source value that the result is the source value reduced modulo   *)
(* 2^(target bits) (sign-extended first for a negative source).            *)
(*                                                                         *)
(* Configurations (CInit): source (SBits, M digits), target (TBits, N      *)
(* digits) with M * ratio and N up to 8 narrow digits, both directions,    *)
(* wider / equal / narrower targets.  The packing direction with a         *)
(* negative source uses and-not on bit fields and stays with TLC.          *)
(*   apalache-mc check --cinit=CInit --inv=CastOK --length=0 ApaCasts.tla  *)
(***************************************************************************)
EXTENDS Integers, Sequences, Apalache

CONSTANTS
    \* @type: Int;
    SB,         \* bits per source digit
    \* @type: Int;
    M,          \* source digits
    \* @type: Int;
    TB,         \* bits per target digit
    \* @type: Int;
    N,          \* target digits
    \* @type: Bool;
    Mut         \* negative probe: the stop index ignores the width comparison (must be refuted)

VARIABLES
    \* @type: Seq(Int);
    src

\* 2^k for the exponents that occur (multiples of 8 up to 512), as a table: no exponentiation of symbolic values
P2(k) == IF k = 0 THEN 1 ELSE IF k = 8 THEN 256 ELSE IF k = 16 THEN 65536 ELSE IF k = 24 THEN 16777216
         ELSE IF k = 32 THEN 4294967296 ELSE IF k = 40 THEN 1099511627776 ELSE IF k = 48 THEN 281474976710656
         ELSE IF k = 56 THEN 72057594037927936 ELSE IF k = 64 THEN 18446744073709551616
         ELSE IF k = 72 THEN 4722366482869645213696 ELSE IF k = 80 THEN 1208925819614629174706176
         ELSE IF k = 88 THEN 309485009821345068724781056 ELSE IF k = 96 THEN 79228162514264337593543950336
         ELSE IF k = 104 THEN 20282409603651670423947251286016 ELSE IF k = 112 THEN 5192296858534827628530496329220096
         ELSE IF k = 120 THEN 1329227995784915872903807060280344576 ELSE IF k = 128 THEN 340282366920938463463374607431768211456
         ELSE -1

\* @type: Set(<<Int, Int, Int, Int>>);
Configs == { <<64, 1, 8, 8>>, <<8, 8, 64, 1>>, <<32, 2, 8, 5>>, <<8, 5, 32, 2>>, <<64, 2, 16, 5>>, <<16, 5, 64, 2>>, <<32, 1, 8, 5>>, <<64, 1, 32, 3>> }
CInit == (\E c \in Configs : SB = c[1] /\ M = c[2] /\ TB = c[3] /\ N = c[4]) /\ Mut = FALSE
CInitMut == (\E c \in Configs : SB = c[1] /\ M = c[2] /\ TB = c[3] /\ N = c[4]) /\ Mut = TRUE

SW == SB * M
TW == TB * N
Init == /\ src = Gen(8)
        /\ Len(src) = M
        /\ \A i \in 1..8 : i <= M => (src[i] >= 0 /\ src[i] < P2(SB))
Next == UNCHANGED src

\* @type: Seq(Int);
Ix == <<1, 2, 3, 4, 5, 6, 7, 8, 9, 10, 11, 12, 13, 14, 15, 16>>
\* @type: Seq(Int);
Ix8 == <<1, 2, 3, 4, 5, 6, 7, 8>>
\* value of a digit array in base 2^bits (k digits)
\* @type: (Seq(Int), Int, Int) => Int;
ValOf(d, bits, k) == LET \* @type: (Int, Int) => Int;
                         St(acc, i) == IF i <= k THEN acc + d[i] * P2(bits * (i - 1)) ELSE acc
                     IN ApaFoldSeqLeft(St, 0, Ix)
SrcVal == ValOf(src, SB, M)
Neg == src[M] >= P2(SB - 8) * 128                      \* top bit of the top source digit
SrcSVal == IF Neg THEN SrcVal - P2(SW) ELSE SrcVal

\* ---- target digits narrower than source digits: every wide digit is split into dc = SB / TB narrow ones;
\*      positions from `stop` on keep the prefill (zero, or all ones for a negative source widened)
Split(fill) ==
    LET dc == SB \div TB
        stop == IF Mut THEN M * dc ELSE IF SW > TW THEN N ELSE M * dc
        \* @type: (Seq(Int), Int) => Seq(Int);
        St(out, i) == IF i > N THEN out
                      ELSE IF i - 1 < stop /\ (i - 1) \div dc < M
                           THEN Append(out, (src[((i - 1) \div dc) + 1] \div P2(((i - 1) % dc) * TB)) % P2(TB))
                           ELSE Append(out, fill)
        \* @type: Seq(Int);
        e == <<>>
    IN ApaFoldSeqLeft(St, e, Ix)
\* ---- target digits wider than source digits: dc = TB / SB narrow digits are or-ed (disjoint bit fields: added)
\*      into each wide digit; source digits from `stop` on are dropped
Pack ==
    LET dc == TB \div SB
        stop == IF Mut THEN M ELSE IF SW > TW THEN N * dc ELSE M
        \* @type: (Seq(Int), Int) => Seq(Int);
        St(out, j) ==      \* j: target digit index (1-based)
            IF j > N THEN out
            ELSE LET \* @type: (Int, Int) => Int;
                     In(acc, t) == LET i == (j - 1) * dc + t       \* 1-based source digit index
                                   IN IF t <= dc /\ i <= stop /\ i <= M THEN acc + src[i] * P2((t - 1) * SB) ELSE acc
                 IN Append(out, ApaFoldSeqLeft(In, 0, Ix8))
        \* @type: Seq(Int);
        e == <<>>
    IN ApaFoldSeqLeft(St, e, Ix)

UCast == IF TB < SB THEN Split(0) ELSE Pack
\* signed source: a negative source that is widened into narrower digits is split over an all-ones prefill
SCastSplit == IF Neg /\ SW < TW THEN Split(P2(TB) - 1) ELSE Split(0)

IsArr(d) == Len(d) = N /\ \A i \in 1..16 : i <= N => (d[i] >= 0 /\ d[i] < P2(TB))
CastOK == /\ IsArr(UCast) /\ ValOf(UCast, TB, N) = SrcVal % P2(TW)
          /\ (TB < SB => IsArr(SCastSplit) /\ ValOf(SCastSplit, TB, N) = SrcSVal % P2(TW))
=============================================================================
