------------------------------ MODULE ApaDigits ------------------------------
(***************************************************************************)
(* L3 at the REAL digit size, checked symbolically.  TLC enumerates the    *)
(* digit loops of alg/DigitAlgs for every input at toy digit sizes (2-4    *)
(* bits per digit); this module states the same loops over unbounded       *)
(* integers with the digit base B as a constant (2^8, 2^16, 2^32, 2^64)    *)
(* and lets Apalache (SMT, linear integer arithmetic) decide them for      *)
(* EVERY digit value at N = 1..4 digits: the carry / borrow ripple of      *)
(* overflowing_add / overflowing_sub, the signed top digit with its flag,  *)
(* carrying_add / borrowing_sub with the xor of the two flags, the         *)
(* MSD-first comparison and its signed variant.  Only algorithms whose     *)
(* arithmetic is linear once B is fixed are stated here (no products of    *)
(* two digits): multiplication, division and shifts by symbolic amounts    *)
(* stay with TLC.                                                          *)
(*                                                                         *)
(* The check is a one-state check: Init draws arbitrary digit arrays,      *)
(* the invariant is the correctness statement.                             *)
(*   apalache-mc check --cinit=CInit --inv=AlgsOK --length=0 ApaDigits.tla *)
(* and, as a negative probe (the checker must find a counterexample):      *)
(*   apalache-mc check --cinit=CInitMut --inv=UAddOK --length=0 ...        *)
(***************************************************************************)
EXTENDS Integers, Sequences, Apalache

CONSTANTS
    \* @type: Int;
    B,          \* digit base
    \* @type: Int;
    N,          \* digit count
    \* @type: Bool;
    Mut         \* negative probe: TRUE replaces the carry test `s >= B` by `s > B` (must be refuted)

VARIABLES
    \* @type: Seq(Int);
    a,
    \* @type: Seq(Int);
    b,
    \* @type: Bool;
    cin

CInit == B \in {256, 65536, 4294967296, 18446744073709551616} /\ N \in 1..4 /\ Mut = FALSE
CInitMut == B \in {256, 65536, 4294967296, 18446744073709551616} /\ N \in 1..4 /\ Mut = TRUE

IsArr(x) == Len(x) = N /\ \A i \in 1..4 : i <= N => (x[i] >= 0 /\ x[i] < B)
Init == /\ a = Gen(4) /\ b = Gen(4)
        /\ IsArr(a) /\ IsArr(b)
        /\ cin \in BOOLEAN
Next == UNCHANGED <<a, b, cin>>

\* B^k for k <= 4, without exponentiation of symbolic values
BP(k) == IF k = 0 THEN 1 ELSE IF k = 1 THEN B ELSE IF k = 2 THEN B * B ELSE IF k = 3 THEN B * B * B ELSE B * B * B * B
\* @type: (Seq(Int)) => Int;
Val(x) == (IF N >= 1 THEN x[1] ELSE 0) + (IF N >= 2 THEN x[2] * BP(1) ELSE 0) + (IF N >= 3 THEN x[3] * BP(2) ELSE 0) + (IF N >= 4 THEN x[4] * BP(3) ELSE 0)
SVal(x) == IF x[N] >= B \div 2 THEN Val(x) - BP(N) ELSE Val(x)
SD(d) == IF d >= B \div 2 THEN d - B ELSE d
I(c) == IF c THEN 1 ELSE 0

\* src/digit.rs carrying_add / borrowing_sub
\* @type: (Int, Int, Bool) => <<Int, Bool>>;
CarryAdd(x, y, c) == LET s == x + y + I(c) IN <<s % B, IF Mut THEN s > B ELSE s >= B>>
\* @type: (Int, Int, Bool) => <<Int, Bool>>;
BorrowSub(x, y, c) == LET d == x - y - I(c) IN <<d % B, d < 0>>

\* one iteration of the ripple loop: state <<digits so far, carry>>
\* @type: (<<Seq(Int), Bool>>, Int) => <<Seq(Int), Bool>>;
AddStep(st, i) == LET r == CarryAdd(a[i], b[i], st[2]) IN <<Append(st[1], r[1]), r[2]>>
\* @type: (<<Seq(Int), Bool>>, Int) => <<Seq(Int), Bool>>;
SubStep(st, i) == LET r == BorrowSub(a[i], b[i], st[2]) IN <<Append(st[1], r[1]), r[2]>>
Idx(n) == SubSeq(<<1, 2, 3, 4>>, 1, n)
\* @type: Seq(Int);
Empty == <<>>
UAdd(c0) == ApaFoldSeqLeft(AddStep, <<Empty, c0>>, Idx(N))
USub(c0) == ApaFoldSeqLeft(SubStep, <<Empty, c0>>, Idx(N))

\* the unsigned ripple: value and carry-out are exact
UAddOK == LET r == UAdd(cin) IN Val(r[1]) + I(r[2]) * BP(N) = Val(a) + Val(b) + I(cin) /\ IsArr(r[1])
USubOK == LET r == USub(cin) IN Val(r[1]) - I(r[2]) * BP(N) = Val(a) - Val(b) - I(cin) /\ IsArr(r[1])

\* src/bint/overflowing.rs: N-1 unsigned digits, then the signed top digit (digit::carrying_add_signed)
\* @type: (Int, Int, Bool) => <<Int, Bool>>;
CarryAddSigned(x, y, c) ==
    LET s1 == SD(x) + SD(y)
        o1 == s1 < -(B \div 2) \/ s1 >= B \div 2
        w1 == SD(s1 % B)
        s2 == w1 + I(c)
        o2 == c /\ s2 >= B \div 2
    IN <<s2 % B, o1 # o2>>
\* @type: (Int, Int, Bool) => <<Int, Bool>>;
BorrowSubSigned(x, y, c) ==
    LET s1 == SD(x) - SD(y)
        o1 == s1 < -(B \div 2) \/ s1 >= B \div 2
        w1 == SD(s1 % B)
        s2 == w1 - I(c)
        o2 == c /\ s2 < -(B \div 2)
    IN <<s2 % B, o1 # o2>>
SAdd == LET lo == ApaFoldSeqLeft(AddStep, <<Empty, FALSE>>, Idx(N - 1))
            t == CarryAddSigned(a[N], b[N], lo[2])
        IN <<Append(lo[1], t[1]), t[2]>>
SSub == LET lo == ApaFoldSeqLeft(SubStep, <<Empty, FALSE>>, Idx(N - 1))
            t == BorrowSubSigned(a[N], b[N], lo[2])
        IN <<Append(lo[1], t[1]), t[2]>>
SIn(x) == x >= -(BP(N) \div 2) /\ x < BP(N) \div 2
\* the wrapped signed result is congruent to the exact one modulo B^N and the flag says whether it is representable
SAddOK == LET r == SAdd  e == SVal(a) + SVal(b)
          IN IsArr(r[1]) /\ (r[2] <=> ~SIn(e)) /\ (~r[2] => SVal(r[1]) = e) /\ (r[2] => (SVal(r[1]) = e - BP(N) \/ SVal(r[1]) = e + BP(N)))
SSubOK == LET r == SSub  e == SVal(a) - SVal(b)
          IN IsArr(r[1]) /\ (r[2] <=> ~SIn(e)) /\ (~r[2] => SVal(r[1]) = e) /\ (r[2] => (SVal(r[1]) = e - BP(N) \/ SVal(r[1]) = e + BP(N)))

\* src/buint/const_trait_fillers.rs: cmp from the most significant digit; signed compares the top digit as signed
\* @type: (Int, Int) => Int;
CmpStep(acc, i) == LET j == N + 1 - i IN IF acc # 0 THEN acc ELSE IF a[j] > b[j] THEN 1 ELSE IF a[j] < b[j] THEN -1 ELSE 0
UCmp == ApaFoldSeqLeft(CmpStep, 0, Idx(N))
Sgn(x) == IF x < 0 THEN -1 ELSE IF x > 0 THEN 1 ELSE 0
SCmp == IF SD(a[N]) > SD(b[N]) THEN 1 ELSE IF SD(a[N]) < SD(b[N]) THEN -1
        ELSE LET \* @type: (Int, Int) => Int;
                 St(acc, i) == LET j == N - i IN IF acc # 0 THEN acc ELSE IF a[j] > b[j] THEN 1 ELSE IF a[j] < b[j] THEN -1 ELSE 0
             IN ApaFoldSeqLeft(St, 0, Idx(N - 1))
CmpOK == UCmp = Sgn(Val(a) - Val(b)) /\ SCmp = Sgn(SVal(a) - SVal(b))

UAddSubOK == UAddOK /\ USubOK
AlgsOK == UAddOK /\ USubOK /\ SAddOK /\ SSubOK /\ CmpOK
==============================================================================
