------------------------------- MODULE NumSem -------------------------------
(***************************************************************************)
(* L2: iterator folds and digit operands (C17); num_integer / num_traits   *)
(* contracts: floored division, gcd, lcm, roots, signed helpers (C18).     *)
(***************************************************************************)
EXTENDS FloatSem

\* a left fold with an operator: each step panics on overflow with debug assertions, wraps without
RECURSIVE FoldOp(_, _, _, _, _, _)
FoldOp(T, mode, mul, xs, i, acc) ==       \* acc is an exact in-range integer; result [p |-> panicked?, v |-> value]
    IF i > Len(xs) THEN [p |-> FALSE, v |-> acc]
    ELSE LET v == IF mul THEN ZMul(acc, xs[i]) ELSE ZAdd(acc, xs[i])
         IN IF InRange(T, v) THEN FoldOp(T, mode, mul, xs, i + 1, v)
            ELSE IF mode = "debug" THEN [p |-> TRUE, v |-> ZZero]
            ELSE FoldOp(T, mode, mul, xs, i + 1, Wrap(T, v))
FoldOut(T, r) == IF r.p THEN OPanic ELSE OVal(T, r.v)

C17Exp(e) ==
    LET T == Ty(e.w, e.s)
        a == e.a
    IN CASE e.op = "fold" ->
              LET xs == [i \in 1..Len(a) |-> AV(a[i])]
                  sum == FoldOut(T, FoldOp(T, e.mode, FALSE, xs, 1, ZZero))
                  prod == FoldOut(T, FoldOp(T, e.mode, TRUE, xs, 1, ZOne))
              IN [f \in Forms(e) |-> IF f \in {"sum_val", "sum_ref"} THEN sum ELSE prod]
         [] e.op = "digit_ops" ->
              LET x == AV(a[1])  d == ZNat(AN(a[2]))
              IN [f \in Forms(e) |->
                    CASE f = "add" -> OVal(T, ZAdd(x, d))              \* recorded only when representable
                      [] f = "div" -> IF ZIsZero(d) THEN OPanic ELSE OVal(T, ZDivTrunc(x, d)[1])
                      [] f = "rem" -> IF ZIsZero(d) THEN OPanic ELSE ONat(ZDivTrunc(x, d)[2].mag)]

-----------------------------------------------------------------------------
\* gcd of two naturals (Euclid on the exact integers)
RECURSIVE Gcd(_, _)
Gcd(a, b) == IF Len(b) = 0 THEN a ELSE Gcd(b, Mod(a, b))

\* r is the integer n-th root of the natural x:  r^n <= x < (r+1)^n   (n a BigNat >= 1)
IsRoot(r, x, n) == /\ PowCapped(r, n, x) # Over
                   /\ PowCapped(Add(r, NOne), n, x) = Over

\* the operator semantics of self * a + b, as two operator steps (MulAdd)
MulAddOut(T, mode, x, y, z) ==
    LET p == ZMul(x, y)
    IN IF ~InRange(T, p) /\ mode = "debug" THEN OPanic
       ELSE OOperator(mode, T, ZAdd(Wrap(T, p), z))

C18Exp(e) ==
    LET T == Ty(e.w, e.s)
        a == e.a
    IN CASE e.op = "integer" ->
              LET x == AV(a[1])  y == AV(a[2])
                  zero == ZIsZero(y)
                  ov == IsMinNeg1(T, x, y)
                  g == ZNat(Gcd(x.mag, y.mag))
                  l == IF ZIsZero(x) \/ zero THEN ZZero ELSE ZNat(Mul(Div(x.mag, g.mag), y.mag))
              IN [f \in Forms(e) |->
                    CASE f = "div_floor" -> IF zero THEN OPanic ELSE IF ov THEN Free ELSE OVal(T, ZDivFloor(x, y)[1])
                      [] f = "mod_floor" -> IF zero THEN OPanic ELSE IF ov THEN Free ELSE OVal(T, ZDivFloor(x, y)[2])
                      [] f = "div_mod_floor" -> IF zero THEN OPanic ELSE IF ov THEN Free
                                                ELSE [k |-> "wide", lo |-> Enc(T, ZDivFloor(x, y)[1]), hi |-> Enc(T, ZDivFloor(x, y)[2])]
                      [] f = "div_rem" -> IF zero THEN OPanic ELSE IF ov THEN Free
                                          ELSE [k |-> "wide", lo |-> Enc(T, ZDivTrunc(x, y)[1]), hi |-> Enc(T, ZDivTrunc(x, y)[2])]
                      \* gcd and lcm are fixed whenever they are representable
                      [] f = "gcd" -> IF InRange(T, g) THEN OVal(T, g) ELSE Free
                      [] f = "lcm" -> IF InRange(T, l) THEN OVal(T, l) ELSE Free
                      [] f = "gcd_lcm" -> IF InRange(T, g) /\ InRange(T, l) THEN [k |-> "wide", lo |-> Enc(T, g), hi |-> Enc(T, l)] ELSE Free
                      \* num_integer's provided methods: ceiling division; the multiple of `other` next to self in the
                      \* direction of other's sign (next) or against it (prev); fixed whenever representable
                      [] f = "nt_div_ceil" -> IF zero THEN OPanic ELSE IF ov THEN Free ELSE OVal(T, ZDivCeil(x, y)[1])
                      [] f = "nt_next_multiple_of" ->
                           IF zero THEN OPanic ELSE IF ov THEN Free
                           ELSE LET m == ZDivFloor(x, y)[2]
                                    v == IF ZIsZero(m) THEN x ELSE ZAdd(x, ZSub(y, m))
                                IN IF InRange(T, v) THEN OVal(T, v) ELSE Free
                      [] f = "nt_prev_multiple_of" ->
                           IF zero THEN OPanic ELSE IF ov THEN Free
                           ELSE LET v == ZSub(x, ZDivFloor(x, y)[2]) IN IF InRange(T, v) THEN OVal(T, v) ELSE Free
                      [] f \in {"is_multiple_of", "divides"} ->
                           IF zero THEN Free ELSE IF ov THEN Free ELSE OBool(ZIsZero(ZDivTrunc(x, y)[2]))]
         [] e.op = "mul_add" -> AllForms(e, MulAddOut(T, e.mode, AV(a[1]), AV(a[2]), AV(a[3])))
         [] e.op = "parity" ->
              LET x == AV(a[1])
              IN [f \in Forms(e) |->
                    CASE f = "is_even" -> OBool(Dg(x.mag, 1) % 2 = 0)
                      [] f = "is_odd"  -> OBool(Dg(x.mag, 1) % 2 = 1)
                      [] f = "is_zero" -> OBool(ZIsZero(x))
                      [] f = "is_one"  -> OBool(x = ZOne)]
         [] e.op = "signed" ->
              LET x == AV(a[1])  y == AV(a[2])
              IN [f \in Forms(e) |->
                    CASE f = "abs" -> OOperator(e.mode, T, ZAbs(x))
                      [] f = "abs_sub" -> IF ZLe(x, y) THEN OVal(T, ZZero) ELSE OOperator(e.mode, T, ZSub(x, y))
                      [] f = "signum" -> OVal(T, ZFromInt(ZSign(x)))
                      [] f = "is_positive" -> OBool(ZSign(x) > 0)
                      [] f = "is_negative" -> OBool(ZSign(x) < 0)]
         [] e.op = "root" ->
              \* the root of largest magnitude with |r^n| <= |x|, sign preserved for odd n; every n >= 1.
              \* Relational: the recorded result is checked, not recomputed.
              LET x == AV(a[1])  n == AN(a[2])
                  odd == IsOddNat(n)
              IN [f \in Forms(e) |->
                    IF IsZero(n) \/ (x.neg /\ ~odd) THEN Free
                    ELSE LET o == e.fo[f]
                         IN IF o.k # "val" THEN OVal(T, ZZero)      \* a panic or any other shape is a disagreement (expected shown as a value)
                            ELSE LET r == Dec(T, o.v)
                                 IN IF r.neg = (x.neg /\ ~ZIsZero(r)) /\ IsRoot(r.mag, x.mag, n) THEN o
                                    ELSE [k |-> "root_of", x |-> Enc(T, x), violates |-> "r^n <= |x| < (r+1)^n with the sign of x"]]
         [] e.op = "prim_shr" ->
              LET p == PatOf(T, AV(a[1]))
                  inr == AmtInRange(T, AN(a[2]))
                  s == IF inr THEN AI(a[2]) ELSE 0
              IN [f \in Forms(e) |->
                    IF ~inr THEN (IF e.mode = "debug" THEN OPanic ELSE NoPanic)
                    ELSE IF f = "unsigned_shr" THEN OPat(T, ShrBits(p, s))
                    ELSE OVal(T, Wrap(T, ShrVal(ST(T), ValOf(ST(T), p), s)))]
=============================================================================
