SPECIFICATION Spec
CONSTANTS Base = 2
          K = 100
INVARIANT L1OK
CHECK_DEADLOCK FALSE
