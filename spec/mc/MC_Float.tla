------------------------------- MODULE MC_Float -------------------------------
(***************************************************************************)
(* FloatSem's definitions (the ones trace validation uses for f32/f64) are *)
(* parametric in the format.  Here they are checked on toy formats, for    *)
(* EVERY integer of a toy type and EVERY bit pattern, against independent  *)
(* relational formulations written with native integers scaled by 2^S:     *)
(*   IntToFloat(x) is a float nearest to x among all finite floats, ties   *)
(*   to the even mantissa, and infinity exactly when x is at least half an *)
(*   ulp beyond the largest finite float;                                  *)
(*   FloatToInt(b) is the truncation of the float's value clamped to the   *)
(*   target's range, 0 for NaN, the bounds for the infinities.             *)
(***************************************************************************)
EXTENDS UniformSem, TLC
CONSTANTS FW, IW          \* float format (8 or 6 bits), integer width
VARIABLES x, s, b
vars == <<x, s, b>>
Init == /\ s \in BOOLEAN
        /\ x \in 0..(PowInt(2, IW) - 1)
        /\ b \in 0..(PowInt(2, FW) - 1)
Next == UNCHANGED vars
Spec == Init /\ [][Next]_vars

T == Ty(IW, s)
p == FMant(FW)
S == FBias(FW) + p + 2                       \* scale: every finite float times 2^S is an integer
\* native decode of pattern n: sign, exponent field, fraction
NSign(n) == n \div PowInt(2, FW - 1) = 1
NExp(n) == (n \div PowInt(2, p)) % PowInt(2, FExpBits(FW))
NFrac(n) == n % PowInt(2, p)
NFinite(n) == NExp(n) # FEmax(FW)
\* |value| * 2^S of a finite pattern
NMagS(n) == IF NExp(n) = 0 THEN NFrac(n) * PowInt(2, 1 - FBias(FW) - p + S)
            ELSE (PowInt(2, p) + NFrac(n)) * PowInt(2, NExp(n) - FBias(FW) - p + S)
AbsN(v) == IF v < 0 THEN -v ELSE v
NV(n) == IF s /\ n >= PowInt(2, IW - 1) THEN n - PowInt(2, IW) ELSE n
Finites == {g \in 0..(PowInt(2, FW - 1) - 1) : NFinite(g)}          \* non-negative finite patterns
MaxFinite == CHOOSE g \in Finites : \A h \in Finites : NMagS(h) <= NMagS(g)

IntToFloatOK ==
    LET xv == NV(x)
        f == ToInt(IntToFloat(FW, ZFromInt(xv)))
        mag == f % PowInt(2, FW - 1)                     \* pattern without the sign bit
        target == AbsN(xv) * PowInt(2, S)
        ulpMax == NMagS(MaxFinite) - NMagS(MaxFinite - 1)
    IN /\ (xv < 0) = NSign(f) \/ xv = 0
       /\ (xv = 0 => f = 0)
       /\ IF 2 * target >= 2 * NMagS(MaxFinite) + ulpMax
          THEN ~NFinite(mag) /\ NFrac(mag) = 0                                         \* infinity
          ELSE /\ NFinite(mag)
               /\ \A g \in Finites : AbsN(target - NMagS(mag)) <= AbsN(target - NMagS(g))
               /\ \A g \in Finites : (g # mag /\ AbsN(target - NMagS(mag)) = AbsN(target - NMagS(g))) => NFrac(mag) % 2 = 0

FloatToIntOK ==
    LET r == ZToInt(FloatToInt(T, FW, FromInt(b)))
        lo == IF s THEN -PowInt(2, IW - 1) ELSE 0
        hi == IF s THEN PowInt(2, IW - 1) - 1 ELSE PowInt(2, IW) - 1
        mb == b % PowInt(2, FW - 1)
        tr == NMagS(mb) \div PowInt(2, S)                                               \* truncated magnitude
        sv == IF NSign(b) THEN -tr ELSE tr
    IN IF ~NFinite(mb) THEN (IF NFrac(mb) # 0 THEN r = 0 ELSE r = (IF NSign(b) THEN lo ELSE hi))
       ELSE r = (IF sv < lo THEN lo ELSE IF sv > hi THEN hi ELSE sv)

FloatOK == IntToFloatOK /\ FloatToIntOK
==============================================================================
