SPECIFICATION Spec
CONSTANTS Base = 4
          FW = 6
          IW = 6
INVARIANT FloatOK
CHECK_DEADLOCK FALSE
