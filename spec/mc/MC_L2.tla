-------------------------------- MODULE MC_L2 --------------------------------
(***************************************************************************)
(* Sanity theorems of the L2 semantics at toy widths, for every operand    *)
(* pair: the functional definitions used by trace validation agree with    *)
(* independent (relational or native-integer) formulations, the forms are  *)
(* consistent projections of the overflowing pair, round trips hold.       *)
(* One state per (type, x, y); the theorems are the invariant.             *)
(***************************************************************************)
EXTENDS UniformSem, TLC
CONSTANT Widths            \* e.g. {4, 6} at Base 4 (DB = 2), {8} at Base 16
VARIABLES w, s, x, y
vars == <<w, s, x, y>>

Init == /\ w \in Widths /\ s \in BOOLEAN
        /\ x \in 0..(PowInt(2, w) - 1) /\ y \in 0..(PowInt(2, w) - 1)
Next == UNCHANGED vars
Spec == Init /\ [][Next]_vars

T == Ty(w, s)
Nat2(n) == FromInt(n)
\* the value denoted by the native pattern n in type T, natively and as an exact integer
NV(n) == IF s /\ n >= PowInt(2, w - 1) THEN n - PowInt(2, w) ELSE n
X == ValOf(T, Nat2(x))
Y == ValOf(T, Nat2(y))
NMin == IF s THEN -PowInt(2, w - 1) ELSE 0
NMax == IF s THEN PowInt(2, w - 1) - 1 ELSE PowInt(2, w) - 1
NIn(n) == n >= NMin /\ n <= NMax
NWrap(n) == NV(n % PowInt(2, w))
AbsN(n) == IF n < 0 THEN -n ELSE n

Encoding ==
    /\ ZToInt(X) = NV(x)
    /\ Dec(T, Enc(T, X)) = X
    /\ ToInt(PatOf(T, X)) = x
    /\ \A n \in {NV(x) + NV(y), NV(x) - NV(y), NV(x) * NV(y), -NV(x)} :
         /\ InRange(T, ZFromInt(n)) = NIn(n)
         /\ ZToInt(Wrap(T, ZFromInt(n))) = NWrap(n)
         /\ ZToInt(Clamp(T, ZFromInt(n))) = (IF n < NMin THEN NMin ELSE IF n > NMax THEN NMax ELSE n)

Projections ==
    \A z \in {ZAdd(X, Y), ZSub(X, Y), ZMul(X, Y), ZNeg(X)} :
        LET ov == ByForm("overflowing", "debug", T, z)
        IN /\ (ByForm("checked", "debug", T, z) = ONone) = ov.f
           /\ (~ov.f => ByForm("checked", "debug", T, z) = [k |-> "some", v |-> ov.v])
           /\ ByForm("wrapping", "debug", T, z).v = ov.v
           /\ (ByForm("strict", "debug", T, z) = OPanic) = ov.f
           /\ (ByForm("op", "debug", T, z) = OPanic) = ov.f
           /\ ByForm("op", "release", T, z) = ByForm("wrapping", "release", T, z)
           /\ (~ov.f => ByForm("saturating", "debug", T, z).v = ov.v)
           /\ \A f \in OpForms : ByForm(f, "debug", T, z) = ByForm("op", "debug", T, z)

Shifts ==
    \A k \in 0..(w - 1) :
        /\ ZToInt(ShlVal(T, X, k)) = NWrap(NV(x) * PowInt(2, k))
        /\ ZToInt(ShrVal(T, X, k)) = (NV(x) \div PowInt(2, k))            \* floor division
        /\ LET rl == RotlPat(T, Nat2(x), k)
           IN /\ RotlPat(T, rl, (w - k) % w) = Nat2(x)
              /\ PopCount(rl) = PopCount(Nat2(x))
              /\ BitLen(rl) <= w
              /\ \A i \in 0..(w - 1) : BitAt(rl, (i + k) % w) = BitAt(Nat2(x), i)

BitsOK ==
    /\ RevBits(T, Nat2(x)) = RevBitsDef(T, Nat2(x))
    /\ RevBits(T, RevBits(T, Nat2(x))) = Nat2(x)
    /\ (w % 8 = 0 => RevBytes(T, Nat2(x)) = RevBytesDef(T, Nat2(x)))
    /\ ToInt(Compl(T, Nat2(x))) = PowInt(2, w) - 1 - x
    /\ LeadingZeros(T, Nat2(x)) = w - BitLenInt(x)
    /\ \A i \in 0..(w - 1) : \A b \in BOOLEAN :
          LET p == SetBit(T, Nat2(x), i, b)
          IN /\ BitAt(p, i) = (IF b THEN 1 ELSE 0)
             /\ \A j \in 0..(w - 1) : j # i => BitAt(p, j) = BitAt(Nat2(x), j)

PowLog ==
    /\ (NV(x) >= 1 /\ NV(y) >= 2 =>
          /\ ILog(X.mag, Y.mag) = ILogLinear(X.mag, Y.mag)
          /\ IsILog(ILog(X.mag, Y.mag), X.mag, Y.mag))
    /\ \A e \in 0..9 :
          LET z == ZPow(X, e)
              pe == PowExact(T, X, Nat2(e))
          IN /\ PowPat(T, X, Nat2(e)) = PatOf(T, z)
             /\ (~pe.over /\ InRange(T, pe.v)) = InRange(T, z)
             /\ (InRange(T, z) => pe.v = z)

MidOK == LET m == ZToInt(MidPoint(T, X, Y))
             sm == NV(x) + NV(y)
         IN /\ NIn(m)
            /\ (IF s THEN (2 * m = sm \/ (sm > 0 /\ 2 * m = sm - 1) \/ (sm < 0 /\ 2 * m = sm + 1))
                     ELSE (2 * m = sm \/ 2 * m = sm - 1))

RootGcd ==
    /\ (NV(x) >= 0 /\ y >= 1 /\ y <= 6 =>
          \E r \in 0..x : IsRoot(Nat2(r), X.mag, Nat2(y)) /\ \A r2 \in 0..x : IsRoot(Nat2(r2), X.mag, Nat2(y)) => r2 = r)
    /\ LET g == ToInt(Gcd(X.mag, Y.mag))
       IN IF x = 0 /\ y = 0 THEN g = 0
          ELSE /\ g >= 1 /\ AbsN(NV(x)) % g = 0 /\ AbsN(NV(y)) % g = 0
               /\ \A d \in 1..PowInt(2, w) : (AbsN(NV(x)) % d = 0 /\ AbsN(NV(y)) % d = 0) => d <= g

\* C16, second sentence, at the design level: extending the operands into a wider type commutes with every
\* value-level operation whose exact result is representable in the narrower type (checked/wrapping forms,
\* comparison, decimal print and parse)
NarrowWide ==
    \A dw \in {w + DB, w + 2 * DB} :
        LET D == Ty(dw, s)
            Same(z) == InRange(T, z) => /\ OChecked(T, z) = OSome(T, z) /\ OChecked(D, z) = OSome(D, z)
                                       /\ Dec(D, Enc(D, z)) = Dec(T, Enc(T, z))
        IN /\ Dec(D, Enc(D, X)) = X                                  \* the extension itself preserves the value
           /\ Same(ZAdd(X, Y)) /\ Same(ZSub(X, Y)) /\ Same(ZMul(X, Y))
           /\ (~ZIsZero(Y) /\ ~IsMinNeg1(T, X, Y) => Same(ZDivTrunc(X, Y)[1]) /\ Same(ZDivTrunc(X, Y)[2]))
           /\ \A k \in 0..(w - 1) : InRange(T, ZMul(X, ZNat(Pow2(k)))) => ShlVal(T, X, k) = ShlVal(D, X, k)
           /\ ParseStr(T, DecBytes(X), 10) = OOk(T, X) /\ ParseStr(D, DecBytes(X), 10) = OOk(D, X)
           /\ (NV(y) >= 0 /\ NV(y) <= 5 =>
                 LET pt == PowExact(T, X, Nat2(NV(y)))  pd == PowExact(D, X, Nat2(NV(y)))
                 IN (~pt.over /\ InRange(T, pt.v)) => (~pd.over /\ pd.v = pt.v))

L2OK == NarrowWide /\ Encoding /\ Projections /\ Shifts /\ BitsOK /\ PowLog /\ MidOK /\ RootGcd
==============================================================================
