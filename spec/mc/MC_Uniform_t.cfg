SPECIFICATION Spec
CONSTANT MaxW = 8
INVARIANTS InRangeInv Unbiased Progress ZoneShape
CHECK_DEADLOCK FALSE
