SPECIFICATION Spec
CONSTANTS Base = 16
          Widths = {8}
INVARIANT L2OK
CHECK_DEADLOCK FALSE
