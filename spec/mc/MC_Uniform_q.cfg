SPECIFICATION Spec
CONSTANT MaxW = 5
INVARIANTS InRangeInv Unbiased Progress ZoneShape
CHECK_DEADLOCK FALSE
