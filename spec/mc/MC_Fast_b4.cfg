SPECIFICATION Spec
CONSTANTS Base = 4
          K = 70
          M = 200
          L = 24
INVARIANT FastOK
CHECK_DEADLOCK FALSE
