SPECIFICATION Spec
CONSTANTS Base = 4
          K = 100
INVARIANT L1OK
CHECK_DEADLOCK FALSE
