------------------------------- MODULE MC_L1 -------------------------------
(***************************************************************************)
(* Exhaustive check of the L1 big-number layer against TLC's native        *)
(* integers: every operator, every operand pair 0..K x 0..K (and the       *)
(* signed pairs -K/2..K/2), at the Base given in the configuration.        *)
(* Each operand pair is one (initial) state; the invariant is the theorem. *)
(***************************************************************************)
EXTENDS BigInt, TLC
CONSTANT K
VARIABLES x, y
vars == <<x, y>>

Init == x \in 0..K /\ y \in 0..K
Next == UNCHANGED vars
Spec == Init /\ [][Next]_vars

N(n) == FromInt(n)
sx == x - (K \div 2)
sy == y - (K \div 2)
SZ(n) == ZFromInt(n)
Sgn(n) == IF n < 0 THEN -1 ELSE IF n > 0 THEN 1 ELSE 0
AbsI(n) == IF n < 0 THEN -n ELSE n
\* native truncated division
TDiv(a, b) == Sgn(a) * Sgn(b) * (AbsI(a) \div AbsI(b))
TRem(a, b) == a - b * TDiv(a, b)
\* native floor division is TLC's \div ; euclid:
EDiv(a, b) == IF b > 0 THEN a \div b ELSE -(a \div (-b))
ERem(a, b) == a - b * EDiv(a, b)
FDiv(a, b) == IF b > 0 THEN a \div b ELSE (-a) \div (-b)
CDiv(a, b) == -FDiv(-a, b)
RECURSIVE NatAnd(_, _)
NatAnd(a, b) == IF a = 0 \/ b = 0 THEN 0 ELSE (a % 2) * (b % 2) + 2 * NatAnd(a \div 2, b \div 2)
WD == Len(FromInt(K)) + 1      \* digits enough for any operand

Canon ==
    /\ IsNat(N(x)) /\ ToInt(N(x)) = x
    /\ IsInt(SZ(sx)) /\ ZToInt(SZ(sx)) = sx
Arith ==
    /\ ToInt(Add(N(x), N(y))) = x + y /\ IsNat(Add(N(x), N(y)))
    /\ (x >= y => ToInt(Sub(N(x), N(y))) = x - y /\ IsNat(Sub(N(x), N(y))))
    /\ ToInt(AbsDiff(N(x), N(y))) = AbsI(x - y)
    /\ ToInt(Mul(N(x), N(y))) = x * y /\ IsNat(Mul(N(x), N(y)))
    /\ Cmp(N(x), N(y)) = Sgn(x - y)
    /\ (y < 4096 => ToInt(MulSmall(N(x), y)) = x * y)
    /\ (y > 0 /\ y < 4096 => LET qr == DivModSmall(N(x), y) IN ToInt(qr[1]) = x \div y /\ qr[2] = x % y /\ IsNat(qr[1]))
    /\ (y > 0 => LET qr == DivMod(N(x), N(y))
                 IN /\ ToInt(qr[1]) = x \div y /\ ToInt(qr[2]) = x % y
                    /\ IsNat(qr[1]) /\ IsNat(qr[2])
                    /\ IsDivMod(qr[1], qr[2], N(x), N(y))
                    /\ (x > 0 => ~IsDivMod(N((x \div y) + 1), qr[2], N(x), N(y))))
Signed ==
    /\ ZToInt(ZAdd(SZ(sx), SZ(sy))) = sx + sy /\ IsInt(ZAdd(SZ(sx), SZ(sy)))
    /\ ZToInt(ZSub(SZ(sx), SZ(sy))) = sx - sy /\ IsInt(ZSub(SZ(sx), SZ(sy)))
    /\ ZToInt(ZMul(SZ(sx), SZ(sy))) = sx * sy /\ IsInt(ZMul(SZ(sx), SZ(sy)))
    /\ ZCmp(SZ(sx), SZ(sy)) = Sgn(sx - sy)
    /\ ZToInt(ZNeg(SZ(sx))) = -sx /\ ZToInt(ZAbs(SZ(sx))) = AbsI(sx) /\ ZSign(SZ(sx)) = Sgn(sx)
    /\ (sy # 0 =>
          LET t == ZDivTrunc(SZ(sx), SZ(sy))
              f == ZDivFloor(SZ(sx), SZ(sy))
              c == ZDivCeil(SZ(sx), SZ(sy))
              e == ZDivEuclid(SZ(sx), SZ(sy))
          IN /\ ZToInt(t[1]) = TDiv(sx, sy) /\ ZToInt(t[2]) = TRem(sx, sy)
             /\ ZToInt(f[1]) = FDiv(sx, sy)
             /\ ZToInt(f[1]) * sy + ZToInt(f[2]) = sx
             /\ ZToInt(c[1]) = CDiv(sx, sy) /\ ZToInt(c[1]) * sy + ZToInt(c[2]) = sx
             /\ ZToInt(e[1]) = EDiv(sx, sy) /\ ZToInt(e[2]) = ERem(sx, sy) /\ ZToInt(e[2]) >= 0 /\ ZToInt(e[2]) < AbsI(sy)
             /\ IsInt(t[1]) /\ IsInt(t[2]) /\ IsInt(f[1]) /\ IsInt(f[2]) /\ IsInt(c[1]) /\ IsInt(c[2]) /\ IsInt(e[1]) /\ IsInt(e[2])
             /\ IsDivTrunc(t[1], t[2], SZ(sx), SZ(sy))
             /\ IsDivFloor(f[1], f[2], SZ(sx), SZ(sy))
             /\ IsDivCeil(c[1], c[2], SZ(sx), SZ(sy))
             /\ IsDivEuclid(e[1], e[2], SZ(sx), SZ(sy)))
Bits ==
    /\ \A k \in 0..9 :
         /\ ToInt(ShlBits(N(x), k)) = x * P2(k) /\ IsNat(ShlBits(N(x), k))
         /\ ToInt(ShrBits(N(x), k)) = x \div P2(k) /\ IsNat(ShrBits(N(x), k))
         /\ ToInt(LowBits(N(x), k)) = x % P2(k) /\ IsNat(LowBits(N(x), k))
         /\ BitAt(N(x), k) = (x \div P2(k)) % 2
         /\ ToInt(Pow2(k)) = P2(k)
    /\ BitLen(N(x)) = BitLenInt(x)
    /\ (x > 0 => TrailingZeros(N(x)) = TzInt(x))
    /\ PopCount(N(x)) = PopInt(x)
    /\ IsPow2(N(x)) = (x > 0 /\ PopInt(x) = 1)
    /\ ToInt(Norm(AndPat(Pad(N(x), WD), Pad(N(y), WD)))) = NatAnd(x, y)
    /\ ToInt(Norm(OrPat(Pad(N(x), WD), Pad(N(y), WD)))) = x + y - NatAnd(x, y)
    /\ ToInt(Norm(XorPat(Pad(N(x), WD), Pad(N(y), WD)))) = x + y - 2 * NatAnd(x, y)
    /\ ToInt(Norm(NotPat(Pad(N(x), WD)))) = PowInt(Base, WD) - 1 - x
PowRadix ==
    /\ (y <= 6 /\ x <= 30 => ToInt(Pow(N(x), y)) = PowInt(x, y))
    /\ (y <= 8 /\ x <= 12 =>
          LET p == PowInt(x, y)  cap == N(K * 7)
          IN PowCapped(N(x), N(y), cap) = IF p <= K * 7 THEN N(p) ELSE Over)
    /\ (y >= 2 /\ y <= 256 => /\ Horner(ToRadix(N(x), y), y) = N(x)
                              /\ \A i \in 1..Len(ToRadix(N(x), y)) : ToRadix(N(x), y)[i] \in 0..(y-1)
                              /\ (x > 0 => ToRadix(N(x), y)[1] # 0))
L1OK == Canon /\ Arith /\ Signed /\ Bits /\ PowRadix
=============================================================================
