SPECIFICATION Spec
CONSTANTS Base = 2
          Widths = {3, 5}
INVARIANT L2OK
CHECK_DEADLOCK FALSE
