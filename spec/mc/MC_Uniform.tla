------------------------------ MODULE MC_Uniform ------------------------------
(***************************************************************************)
(* Design-level model of bnum's uniform sampler (src/random.rs): the       *)
(* widening-multiply method on words of w bits with a rejection zone.      *)
(*    v drawn;  (lo, hi) = widening_mul(v, range);  accept iff lo <= zone; *)
(*    result = low + hi                                                    *)
(* with the exact zone  MAX - ((MAX - range + 1) mod range)  used by       *)
(* Uniform::sample (and by sample_single_inclusive up to 16 bits) and the  *)
(* approximate zone  (range << leading_zeros(range)) - 1  used by          *)
(* sample_single_inclusive above 16 bits.                                  *)
(* States: one per (w, range, zone formula); the sampler as a PlusCal-like *)
(* loop over an arbitrary word stream is the action Draw.  Invariants:     *)
(* every accepted word maps into the range; every value of the range has   *)
(* the same number (>= 1) of accepted preimages -- for BOTH zone formulas, *)
(* every range size 1..2^w-1 and every word size 2..MaxW.  Liveness: the   *)
(* loop exits whenever the stream eventually offers an accepted word.      *)
(***************************************************************************)
EXTENDS Integers, FiniteSets, TLC
CONSTANT MaxW

RECURSIVE P2(_)
P2(k) == IF k = 0 THEN 1 ELSE 2 * P2(k - 1)
RECURSIVE BitLen(_)
BitLen(n) == IF n = 0 THEN 0 ELSE 1 + BitLen(n \div 2)

Words(w) == 0..(P2(w) - 1)
Lo(w, v, r) == (v * r) % P2(w)
Hi(w, v, r) == (v * r) \div P2(w)
ExactZone(w, r)  == (P2(w) - 1) - ((P2(w) - r) % r)
ApproxZone(w, r) == r * P2(w - BitLen(r)) - 1
Zone(kind, w, r) == IF kind = "exact" THEN ExactZone(w, r) ELSE ApproxZone(w, r)

VARIABLES w, r, kind,      \* configuration
          pc, v, res, n    \* the sampling loop: program counter, current word, result, words drawn
vars == <<w, r, kind, pc, v, res, n>>

Init == /\ w \in 2..MaxW
        /\ r \in 1..(P2(w) - 1)
        /\ kind \in {"exact", "approx"}
        /\ pc = "draw" /\ v = 0 /\ res = -1 /\ n = 0

Draw == /\ pc = "draw" /\ n < 3
        /\ \E x \in Words(w) :
             /\ v' = x
             /\ n' = n + 1
             /\ IF Lo(w, x, r) <= Zone(kind, w, r)
                THEN pc' = "done" /\ res' = Hi(w, x, r)
                ELSE pc' = "draw" /\ res' = res
        /\ UNCHANGED <<w, r, kind>>
Next == Draw \/ (pc = "done" /\ UNCHANGED vars) \/ (n = 3 /\ UNCHANGED vars)
Spec == Init /\ [][Next]_vars

Accepted == {x \in Words(w) : Lo(w, x, r) <= Zone(kind, w, r)}
Pre(k) == Cardinality({x \in Accepted : Hi(w, x, r) = k})

InRangeInv == pc = "done" => res \in 0..(r - 1)
\* evaluated once per configuration (in the initial states)
Unbiased == n = 0 => /\ \A k \in 0..(r - 1) : Pre(k) = Pre(0)
                     /\ Pre(0) >= 1
                     /\ \A x \in Accepted : Hi(w, x, r) \in 0..(r - 1)
\* the approximate zone never accepts fewer words than half of all words: the loop is expected to exit quickly
Progress == n = 0 => 2 * Cardinality(Accepted) >= P2(w)
\* the two zone formulas agree on which result an accepted word gives (they differ only in what they reject)
ZoneShape == n = 0 => (Zone(kind, w, r) + 1) % r = 0 /\ Zone(kind, w, r) < P2(w)
==============================================================================
