SPECIFICATION Spec
CONSTANTS Base = 256
          K = 100
INVARIANT L1OK
CHECK_DEADLOCK FALSE
