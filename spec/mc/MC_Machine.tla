------------------------------ MODULE MC_Machine ------------------------------
(* the machine at toy widths: every program of at most Depth steps over all values of the type *)
EXTENDS Machine
CONSTANT Depth
AllVals == {ValOf(T, FromInt(n)) : n \in 0..(PowInt(2, MW) - 1)}
MCPool == [vals |-> AllVals, amounts |-> 0..(2 * MW + 1)]
Bounded == steps < Depth
\* the observation and the step counter do not influence behaviour
View == <<reg, exact, ringok>>
==============================================================================
