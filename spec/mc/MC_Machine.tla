------------------------------ MODULE MC_Machine ------------------------------
(* the machine at toy widths: every program of at most Depth steps over all values of the type *)
EXTENDS Machine
CONSTANT Depth
AllVals == {ValOf(T, FromInt(n)) : n \in 0..(PowInt(2, MW) - 1)}
MCPool == [vals |-> AllVals, amounts |-> 0..(2 * MW + 1)]
\* programs of at most Depth steps.  The bound is a guard of the next-state relation, not a CONSTRAINT: TLC discards a
\* state that violates a constraint before it evaluates the invariants on it, which would leave the last step unchecked.
MCNext == steps < Depth /\ MNext
MCSpec == MInit /\ [][MCNext]_mvars
\* the observation and the step counter do not influence behaviour
View == <<reg, exact, ringok>>
==============================================================================
