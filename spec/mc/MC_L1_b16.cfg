SPECIFICATION Spec
CONSTANTS Base = 16
          K = 100
INVARIANT L1OK
CHECK_DEADLOCK FALSE
