SPECIFICATION Spec
CONSTANTS Base = 256
          K = 20
          M = 40
          L = 48
INVARIANT FastOK
CHECK_DEADLOCK FALSE
