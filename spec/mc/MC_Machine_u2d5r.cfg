SPECIFICATION MCSpec
CONSTANTS Base = 4
          Mode = "release"
          MW = 2
          MS = FALSE
          Regs = {"r0", "r1"}
          Pool <- MCPool
          Depth = 5
INVARIANTS TypeOK RingHom RoundTrips
PROPERTY Unchanged
CHECK_DEADLOCK FALSE
