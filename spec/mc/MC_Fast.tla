------------------------------- MODULE MC_Fast -------------------------------
(***************************************************************************)
(* The accelerated entry points of BigNat (Java override BigNat.class) are *)
(* checked against the pure TLA+ definitions they are defined as:          *)
(* exhaustively for all operand pairs 0..K x 0..K, and on M pseudo-random  *)
(* operand pairs of 1..L digits (extreme digits 0 and Base-1 are frequent) *)
(* so that carries, borrows and quotient-digit corrections at full length  *)
(* are exercised.  Run with the override class present; without it the     *)
(* check is trivially true.                                                *)
(***************************************************************************)
EXTENDS BigInt, TLC
CONSTANTS K, M, L
VARIABLES x, y, i
vars == <<x, y, i>>

Init == \/ (x \in 0..K /\ y \in 0..K /\ i = 0)
        \/ (x = 0 /\ y = 0 /\ i \in 1..M)
Next == UNCHANGED vars
Spec == Init /\ [][Next]_vars

\* deterministic pseudo-random digits
Lcg(s) == ((s % 30011) * 31337 + 12345) % 65521
Dig(s) == LET r == Lcg(s) % 8 IN IF r = 0 THEN 0 ELSE IF r = 1 THEN Base - 1 ELSE IF r = 2 THEN 1 ELSE Lcg(s + 7) % Base
Rnd(seed, len) == Norm([j \in 1..len |-> Dig(seed * 131 + j * 17)])
A == IF i = 0 THEN FromInt(x) ELSE Rnd(i, 1 + (Lcg(i) % L))
B == IF i = 0 THEN FromInt(y) ELSE Rnd(i + 100003, 1 + (Lcg(i + 5) % L))

FastOK ==
    /\ AddF(Base, A, B) = AddDef(A, B)
    /\ MulF(Base, A, B) = MulDef(A, B)
    /\ (Cmp(A, B) >= 0 => SubF(Base, A, B) = SubDef(A, B))
    /\ (Cmp(B, A) >= 0 => SubF(Base, B, A) = SubDef(B, A))
    /\ (Len(B) > 0 => DivModF(Base, A, B) = DivModDef(A, B))
    /\ (Len(A) > 0 => DivModF(Base, B, A) = DivModDef(B, A))
    /\ (Len(B) > 0 => DivModF(Base, MulDef(A, B), B) = <<A, <<>>>>)
    /\ IsNat(AddF(Base, A, B)) /\ IsNat(MulF(Base, A, B))
    /\ \A r \in {2, 3, 8, 10, 16, 36, 255, 256} :
          /\ ToRadixF(Base, A, r) = ToRadixDef(A, r)
          /\ HornerF(Base, ToRadixDef(A, r), r) = A
          /\ HornerF(Base, <<0, 0>> \o ToRadixDef(B, r), r) = HornerDef(<<0, 0>> \o ToRadixDef(B, r), r)
==============================================================================
