SPECIFICATION Spec
CONSTANTS Base = 4
          Widths = {4, 6}
INVARIANT L2OK
CHECK_DEADLOCK FALSE
