SPECIFICATION Spec
CONSTANTS Base = 4
          FW = 8
          IW = 10
INVARIANT FloatOK
CHECK_DEADLOCK FALSE
