SPECIFICATION Spec
CONSTANTS Base = 256
          K = 40
          M = 300
          L = 128
INVARIANT FastOK
CHECK_DEADLOCK FALSE
