------------------------------ MODULE ShiftSem ------------------------------
(***************************************************************************)
(* L2: shifts and rotations (property C05) and the shift operators with    *)
(* every primitive right-hand-side type (property C04).                    *)
(* Shift and rotate amounts are scalars up to 2^32-1 (for operators: any   *)
(* integer of a primitive type), so they are BigNats / sign+magnitude.     *)
(***************************************************************************)
EXTENDS ArithSem

IsPow2Int(n) == n > 0 /\ PopInt(n) = 1
PairFlag(f) == [k |-> "pairflag", f |-> f]         \* loose token: overflowing pair with fixed flag, free value

\* x * 2^s reduced into T, for a native s < w
ShlVal(T, x, s) == ValOf(T, LowBits(ShlBits(PatOf(T, x), s), T.w))
\* floor(x / 2^s): sign-propagating for signed, zero-filling for unsigned; native s < w
ShrVal(T, x, s) == IF x.neg THEN ZDivFloor(x, ZNat(Pow2(s)))[1] ELSE ZNat(ShrBits(x.mag, s))

\* amount (BigNat) compared with the width
AmtInRange(T, amt) == IsSmall(amt) /\ ToInt(amt) < T.w
AmtMod(T, amt) == DivModSmall(amt, T.w)[2]             \* amt mod w as a native integer

ShiftVal(dir, T, x, s) == IF dir = "l" THEN ShlVal(T, x, s) ELSE ShrVal(T, x, s)

\* the forms of shl / shr on (x, amt)
ShiftForms(e, T, dir) ==
    LET x   == AV(e.a[1])
        amt == AN(e.a[2])
        inr == AmtInRange(T, amt)
        p2  == IsPow2Int(T.w)
        v   == ShiftVal(dir, T, x, IF inr THEN ToInt(amt) ELSE AmtMod(T, amt))   \* in range: exact; else masked
    IN [f \in Forms(e) |->
          CASE f = "checked"     -> IF inr THEN OSome(T, v) ELSE ONone
            [] f = "overflowing" -> IF inr THEN OPair(T, v, FALSE) ELSE IF p2 THEN OPair(T, v, TRUE) ELSE PairFlag(TRUE)
            [] f = "wrapping"    -> IF inr \/ p2 THEN OVal(T, v) ELSE AnyVal
            [] f = "strict"      -> IF inr THEN OVal(T, v) ELSE OPanic
            [] f = "unchecked"   -> OVal(T, v)                 \* recorded only when in range
            [] f = "unbounded"   -> IF inr THEN OVal(T, v)
                                    ELSE IF dir = "r" /\ x.neg THEN OVal(T, ZNeg(ZOne)) ELSE OVal(T, ZZero)
            [] f \in {"op", "inherent"} ->
                                    IF inr THEN OVal(T, v)
                                    ELSE IF e.mode = "debug" THEN OPanic
                                    ELSE IF p2 THEN OVal(T, v) ELSE AnyVal]

\* rotation of the w-bit pattern by amt mod w
RotlPat(T, p, r) == IF r = 0 THEN p
                    ELSE Add(LowBits(ShlBits(p, r), T.w), ShrBits(p, T.w - r))
RotForms(e, T, dir) ==
    LET p == PatOf(T, AV(e.a[1]))
        r == AmtMod(T, AN(e.a[2]))
        rr == IF dir = "l" THEN r ELSE (T.w - r) % T.w
    IN AllForms(e, OPat(T, RotlPat(T, p, rr)))

C05Exp(e) ==
    LET T == Ty(e.w, e.s)
    IN CASE e.op = "shl" -> ShiftForms(e, T, "l")
         [] e.op = "shr" -> ShiftForms(e, T, "r")
         [] e.op = "rotate_left"  -> RotForms(e, T, "l")
         [] e.op = "rotate_right" -> RotForms(e, T, "r")

-----------------------------------------------------------------------------
\* C04: << and >> with a primitive right-hand side (a possibly negative scalar, sign+magnitude).
\* In range: the shifted value.  Out of range (negative or >= BITS): panic with debug assertions;
\* without them no panic, and -- when BITS is a power of two -- the value shifted by rhs mod BITS,
\* which is what the primitive integers do (the amount is truncated to the shift width).
SAmtMod(T, arg) == LET m == DivModSmall(arg.v, T.w)[2]            \* |rhs| mod w
                   IN IF arg.neg /\ m # 0 THEN T.w - m ELSE m      \* rhs mod w, mathematically
ShiftOps(e, T, dir) ==
    LET x   == AV(e.a[1])
        arg == e.a[2]
        inr == ~arg.neg /\ AmtInRange(T, arg.v)
        p2  == IsPow2Int(T.w)
        v   == ShiftVal(dir, T, x, IF inr THEN ToInt(arg.v) ELSE SAmtMod(T, arg))
    IN AllForms(e, IF inr THEN OVal(T, v)
                   ELSE IF e.mode = "debug" THEN OPanic
                   ELSE IF p2 THEN OVal(T, v) ELSE AnyVal)

\* least power of two >= x (x >= 0), as an exact integer
NextPow2(x) == IF Len(x.mag) = 0 \/ IsPow2(x.mag) THEN (IF Len(x.mag) = 0 THEN ZOne ELSE x) ELSE ZNat(Pow2(BitLen(x.mag)))

C04Exp(e) ==
    LET T == Ty(e.w, e.s)
    IN CASE e.op = "shl_ops" -> ShiftOps(e, T, "l")
         [] e.op = "shr_ops" -> ShiftOps(e, T, "r")
         [] e.op = "next_power_of_two" ->
              LET np == NextPow2(AV(e.a[1]))
              IN [f \in Forms(e) |->
                    CASE f = "plain"    -> OOperator(e.mode, T, np)      \* wraps to 0 without debug assertions
                      [] f = "checked"  -> OChecked(T, np)
                      [] f = "wrapping" -> OWrapping(T, np)]
=============================================================================
