------------------------------- MODULE ConvSem -------------------------------
(***************************************************************************)
(* L2: casts (C09), checked conversions and digit access (C13), byte       *)
(* slices and endianness helpers (C15), constants and aliases (C16).       *)
(* The source type of a cast is the event's type; the target type is       *)
(* carried as a typed argument without a value.                            *)
(***************************************************************************)
EXTENDS BitSem

\* value of a byte string read most-significant-first as an unsigned number (Base = 256 only)
RevSeq(s) == [i \in 1..Len(s) |-> s[Len(s) + 1 - i]]
NatOfBE(bs) == Norm(RevSeq(bs))
NatOfLE(bs) == Norm(bs)
\* ... read as a two's-complement number of 8*Len(bs) bits (sign taken from the most significant byte)
IntOfBytes(le, signed) ==
    IF Len(le) = 0 THEN ZZero
    ELSE IF signed /\ le[Len(le)] >= 128 THEN Z(TRUE, Sub(Pow2(8 * Len(le)), Norm(le))) ELSE ZNat(Norm(le))

C09Exp(e) ==
    LET T == Ty(e.w, e.s)
        a == e.a
    IN CASE e.op = "as" -> AllForms(e, OVal(ATy(a[2]), Wrap(ATy(a[2]), AV(a[1]))))
         [] e.op = "cast_signed"   -> AllForms(e, OVal(ST(T), Wrap(ST(T), AV(a[1]))))
         [] e.op = "reinterpret"   -> AllForms(e, OVal(UT(T), Wrap(UT(T), AV(a[1]))))
         [] e.op = "from_bits"     -> AllForms(e, OVal(ST(T), Wrap(ST(T), AV(a[1]))))

C13Exp(e) ==
    LET T == Ty(e.w, e.s)
        a == e.a
        TryInto(D, x) == IF InRange(D, x) THEN OOk(D, x) ELSE OErr("TryFromIntError")
    IN CASE e.op = "btryfrom"     -> AllForms(e, TryInto(ATy(a[2]), AV(a[1])))
         [] e.op = "tryfrom_prim" -> AllForms(e, TryInto(ATy(a[2]), AV(a[1])))
         [] e.op = "from_prim"    -> AllForms(e, OVal(ATy(a[2]), AV(a[1])))      \* recorded only when representable
         \* the little-endian digit array is exposed unchanged: as bytes it is the value's encoding
         [] e.op = "from_digits"  -> AllForms(e, [k |-> "val", v |-> a[1].v])
         [] e.op = "from_digit"   -> AllForms(e, OVal(T, ZNat(AN(a[1]))))

C15Exp(e) ==
    LET T == Ty(e.w, e.s)
        a == e.a
        FromSlice(le) == LET x == IntOfBytes(le, T.s) IN IF InRange(T, x) THEN OSome(T, x) ELSE ONone
    IN CASE e.op = "from_be_slice" -> AllForms(e, FromSlice(RevSeq(a[1].v)))
         [] e.op = "from_le_slice" -> AllForms(e, FromSlice(a[1].v))
         [] e.op = "endian" ->
              LET p == PatOf(T, AV(a[1]))
                  little == a[2].v = "little"
                  sw == OPat(T, RevBytes(T, p))
                  id == OPat(T, p)
              IN [f \in Forms(e) |->
                    CASE f \in {"to_be", "from_be"} -> IF little THEN sw ELSE id
                      [] f \in {"to_le", "from_le"} -> IF little THEN id ELSE sw]
         \* nightly: to_xx_bytes / from_xx_bytes are exact inverses producing the two's-complement bytes
         [] e.op = "bytes" ->
              LET le == Enc(T, AV(a[1]))
                  little == a[2].v = "little"
              IN [f \in Forms(e) |->
                    CASE f = "to_le_bytes" -> OBytes(le)
                      [] f = "to_be_bytes" -> OBytes(RevSeq(le))
                      [] f = "to_ne_bytes" -> OBytes(IF little THEN le ELSE RevSeq(le))
                      [] f \in {"from_le_bytes", "from_be_bytes", "from_ne_bytes"} -> OVal(T, AV(a[1]))]

\* canonical decimal numeral as ASCII bytes
DecBytes(x) == LET ds == ToRadix(x.mag, 10)
               IN (IF x.neg THEN <<45>> ELSE <<>>) \o [i \in 1..Len(ds) |-> 48 + ds[i]]

\* narrow/wide commutation (C16): each operation is judged at the narrow type S and, on the extended
\* operands, at the wide type D; whenever the exact result fits S both are Some of the same integer.
NWExp(e) ==
    LET S == Ty(e.w, e.s)
        D == ATy(e.a[3])
        x == AV(e.a[1])
        y == AV(e.a[2])
        ex == AN(e.a[4])
        sh == AI(e.a[5])
        DivC(T, part) == IF ZIsZero(y) \/ IsMinNeg1(T, x, y) THEN ONone ELSE OSome(T, ZDivTrunc(x, y)[part])
        PowC(T) == LET pe == PowExact(T, x, ex) IN IF ~pe.over /\ InRange(T, pe.v) THEN OSome(T, pe.v) ELSE ONone
    IN [f \in Forms(e) |->
          CASE f = "cast_a" -> OVal(D, x)
            [] f = "cast_b" -> OVal(D, y)
            [] f = "add_n" -> OChecked(S, ZAdd(x, y)) [] f = "add_w" -> OChecked(D, ZAdd(x, y))
            [] f = "sub_n" -> OChecked(S, ZSub(x, y)) [] f = "sub_w" -> OChecked(D, ZSub(x, y))
            [] f = "mul_n" -> OChecked(S, ZMul(x, y)) [] f = "mul_w" -> OChecked(D, ZMul(x, y))
            [] f = "div_n" -> DivC(S, 1) [] f = "div_w" -> DivC(D, 1)
            [] f = "rem_n" -> DivC(S, 2) [] f = "rem_w" -> DivC(D, 2)
            [] f = "pow_n" -> PowC(S) [] f = "pow_w" -> PowC(D)
            [] f = "shl_n" -> OVal(S, ShlVal(S, x, sh)) [] f = "shl_w" -> OVal(D, ShlVal(D, x, sh))
            [] f \in {"cmp_n", "cmp_w"} -> OOrd(ZCmp(x, y))
            [] f \in {"str_n", "str_w"} -> OBytes(DecBytes(x))
            [] f = "parse_w" -> OVal(D, x)]

ConstVal(T, f) ==
    CASE f = "MIN" -> MinOf(T) [] f = "MAX" -> MaxOf(T) [] f = "ZERO" -> ZZero [] f = "DEFAULT" -> ZZero
      [] f = "ONE" -> ZFromInt(1) [] f = "TWO" -> ZFromInt(2) [] f = "THREE" -> ZFromInt(3) [] f = "FOUR" -> ZFromInt(4)
      [] f = "FIVE" -> ZFromInt(5) [] f = "SIX" -> ZFromInt(6) [] f = "SEVEN" -> ZFromInt(7) [] f = "EIGHT" -> ZFromInt(8)
      [] f = "NINE" -> ZFromInt(9) [] f = "TEN" -> ZFromInt(10)
      [] f = "NEG_ONE" -> ZFromInt(-1) [] f = "NEG_TWO" -> ZFromInt(-2) [] f = "NEG_THREE" -> ZFromInt(-3)
      [] f = "NEG_FOUR" -> ZFromInt(-4) [] f = "NEG_FIVE" -> ZFromInt(-5) [] f = "NEG_SIX" -> ZFromInt(-6)
      [] f = "NEG_SEVEN" -> ZFromInt(-7) [] f = "NEG_EIGHT" -> ZFromInt(-8) [] f = "NEG_NINE" -> ZFromInt(-9)
      [] f = "NEG_TEN" -> ZFromInt(-10)

C16Exp(e) ==
    LET T == Ty(e.w, e.s)
    IN CASE e.op = "consts" ->
              [f \in Forms(e) |->
                    CASE f = "BITS"  -> ONat(FromInt(T.w))
                      [] f = "BYTES" -> ONat(FromInt(T.w \div 8))
                      [] OTHER -> OVal(T, ConstVal(T, f))]
         [] e.op = "nw" -> NWExp(e)
         [] e.op = "alias" ->
              LET bits == AI(e.a[1])
              IN [f \in Forms(e) |->
                    CASE f \in {"U_BITS", "I_BITS"} -> ONat(FromInt(bits))
                      [] f \in {"U_BYTES", "I_BYTES"} -> ONat(FromInt(bits \div 8))
                      [] f = "U_MAX_ONES" -> ONat(FromInt(bits))
                      [] f = "I_MIN_TZ" -> ONat(FromInt(bits - 1))
                      [] f = "I_NEG_ONE_ONES" -> ONat(FromInt(bits))]
=============================================================================
