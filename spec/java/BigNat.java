// Module override for spec/BigNat.tla: accelerated evaluation of AddF, SubF, MulF, DivModF.
// Each method computes exactly what the TLA+ definition of the same name defines (checked by
// spec/mc/MC_Fast.tla against the pure TLA+ operators AddDef, SubDef, MulDef, DivModDef).
// Values are little-endian sequences of digits in base bs; canonical (no most-significant zero).
import java.math.BigInteger;
import tlc2.value.impl.IntValue;
import tlc2.value.impl.TupleValue;
import tlc2.value.impl.Value;

public class BigNat {
    private static BigInteger toBig(int bs, Value v) {
        TupleValue t = (TupleValue) v.toTuple();
        if (t == null) throw new RuntimeException("BigNat override: argument is not a sequence: " + v);
        Value[] es = t.elems;
        int n = es.length;
        if (bs == 256) {
            byte[] be = new byte[n + 1];            // big-endian magnitude with a leading zero byte
            for (int i = 0; i < n; i++) {
                int d = ((IntValue) es[i]).val;
                if (d < 0 || d > 255) throw new RuntimeException("BigNat override: digit out of range: " + d);
                be[n - i] = (byte) d;
            }
            return new BigInteger(be);
        }
        BigInteger r = BigInteger.ZERO;
        BigInteger b = BigInteger.valueOf(bs);
        for (int i = n - 1; i >= 0; i--) {
            int d = ((IntValue) es[i]).val;
            if (d < 0 || d >= bs) throw new RuntimeException("BigNat override: digit out of range: " + d);
            r = r.multiply(b).add(BigInteger.valueOf(d));
        }
        return r;
    }

    private static Value fromBig(int bs, BigInteger x) {
        if (x.signum() < 0) throw new RuntimeException("BigNat override: negative result");
        if (x.signum() == 0) return new TupleValue(new Value[0]);
        if (bs == 256) {
            byte[] be = x.toByteArray();
            int start = (be[0] == 0) ? 1 : 0;
            int n = be.length - start;
            Value[] es = new Value[n];
            for (int i = 0; i < n; i++) es[i] = IntValue.gen(be[be.length - 1 - i] & 0xff);
            return new TupleValue(es);
        }
        java.util.ArrayList<Value> ds = new java.util.ArrayList<Value>();
        BigInteger b = BigInteger.valueOf(bs);
        while (x.signum() > 0) {
            BigInteger[] qr = x.divideAndRemainder(b);
            ds.add(IntValue.gen(qr[1].intValue()));
            x = qr[0];
        }
        return new TupleValue(ds.toArray(new Value[0]));
    }

    private static int base(Value bs) { return ((IntValue) bs).val; }

    public static Value AddF(Value bs, Value a, Value b) {
        int B = base(bs);
        return fromBig(B, toBig(B, a).add(toBig(B, b)));
    }
    public static Value SubF(Value bs, Value a, Value b) {      // defined for a >= b
        int B = base(bs);
        return fromBig(B, toBig(B, a).subtract(toBig(B, b)));
    }
    public static Value MulF(Value bs, Value a, Value b) {
        int B = base(bs);
        return fromBig(B, toBig(B, a).multiply(toBig(B, b)));
    }
    public static Value DivModF(Value bs, Value a, Value b) {   // b # 0
        int B = base(bs);
        BigInteger[] qr = toBig(B, a).divideAndRemainder(toBig(B, b));
        return new TupleValue(new Value[] { fromBig(B, qr[0]), fromBig(B, qr[1]) });
    }
}
