// Module override for spec/BigBits.tla: accelerated evaluation of HornerF and ToRadixF.
// Each method computes exactly what the TLA+ definition of the same name defines (checked by
// spec/mc/MC_Fast.tla against the pure TLA+ operators HornerDef and ToRadixDef).
import java.math.BigInteger;
import tlc2.value.impl.IntValue;
import tlc2.value.impl.TupleValue;
import tlc2.value.impl.Value;

public class BigBits {
    private static BigInteger toBig(int bs, Value v) {
        TupleValue t = (TupleValue) v.toTuple();
        Value[] es = t.elems;
        BigInteger r = BigInteger.ZERO;
        BigInteger b = BigInteger.valueOf(bs);
        for (int i = es.length - 1; i >= 0; i--) {
            int d = ((IntValue) es[i]).val;
            if (d < 0 || d >= bs) throw new RuntimeException("BigBits override: digit out of range: " + d);
            r = r.multiply(b).add(BigInteger.valueOf(d));
        }
        return r;
    }
    private static Value fromBig(int bs, BigInteger x) {
        java.util.ArrayList<Value> ds = new java.util.ArrayList<Value>();
        BigInteger b = BigInteger.valueOf(bs);
        while (x.signum() > 0) {
            BigInteger[] qr = x.divideAndRemainder(b);
            ds.add(IntValue.gen(qr[1].intValue()));
            x = qr[0];
        }
        return new TupleValue(ds.toArray(new Value[0]));
    }
    // value of the digit sequence ds (most significant first) in radix r, as a base-bs BigNat
    public static Value HornerF(Value bs, Value ds, Value r) {
        int B = ((IntValue) bs).val;
        int R = ((IntValue) r).val;
        Value[] es = ((TupleValue) ds.toTuple()).elems;
        BigInteger acc = BigInteger.ZERO;
        BigInteger rb = BigInteger.valueOf(R);
        for (int i = 0; i < es.length; i++) {
            int d = ((IntValue) es[i]).val;
            if (d < 0) throw new RuntimeException("BigBits override: negative digit");
            acc = acc.multiply(rb).add(BigInteger.valueOf(d));
        }
        return fromBig(B, acc);
    }
    // canonical digit sequence of a in radix r, most significant first; <<0>> for zero
    public static Value ToRadixF(Value bs, Value a, Value r) {
        int B = ((IntValue) bs).val;
        int R = ((IntValue) r).val;
        BigInteger x = toBig(B, a);
        if (x.signum() == 0) return new TupleValue(new Value[] { IntValue.gen(0) });
        java.util.ArrayList<Value> ds = new java.util.ArrayList<Value>();
        BigInteger rb = BigInteger.valueOf(R);
        while (x.signum() > 0) {
            BigInteger[] qr = x.divideAndRemainder(rb);
            ds.add(IntValue.gen(qr[1].intValue()));
            x = qr[0];
        }
        java.util.Collections.reverse(ds);
        return new TupleValue(ds.toArray(new Value[0]));
    }
}
