//! Recorder for the optional encodings of a bnum integer (cargo features serde, borsh, zeroize, arbitrary):
//! behaviour beyond the twenty listed properties, specified in spec/CodecSem.tla and checked by bin/beyond.
//! Values are built from bytes and read back through digits()/from_digits only (the Bn trait of the harness).
use bnum::{BInt, BIntD16, BIntD32, BIntD8, BUint, BUintD16, BUintD32, BUintD8};
use bnum_verif_harness::gen::{self, Rng, B};
use bnum_verif_harness::*;

fn err_out<T, E>(r: Result<T, E>, ok: fn(T) -> Out) -> Out {
    match r {
        Ok(v) => ok(v),
        Err(_) => Out::Err_("codec".to_string()),
    }
}

/// the digit numbers of a serialised value, as little-endian bytes of `dsize` bytes per digit
fn json_digit_bytes(text: &str, signed: bool, dsize: usize) -> Out {
    let v: serde_json::Value = match serde_json::from_str(text) {
        Ok(v) => v,
        Err(_) => return Out::Err_("not json".to_string()),
    };
    let top = match v.as_object() {
        Some(o) if o.len() == 1 => o,
        _ => return Out::Err_("shape".to_string()),
    };
    let arr = if signed {
        match top.get("bits").and_then(|b| b.as_object()).filter(|o| o.len() == 1).and_then(|o| o.get("digits")) {
            Some(a) => a,
            None => return Out::Err_("shape".to_string()),
        }
    } else {
        match top.get("digits") {
            Some(a) => a,
            None => return Out::Err_("shape".to_string()),
        }
    };
    let mut out = Vec::new();
    for d in arr.as_array().map(|a| a.as_slice()).unwrap_or(&[]) {
        match d.as_u64() {
            Some(x) => out.extend_from_slice(&x.to_le_bytes()[..dsize]),
            None => return Out::Err_("digit".to_string()),
        }
    }
    Out::Bytes(out)
}

/// JSON text of a value written by the harness from the value's little-endian bytes
fn json_text(b: &B, signed: bool, dsize: usize, drop_last: bool, extra: bool, bump: bool) -> String {
    let mut ds: Vec<String> = Vec::new();
    for c in b.chunks(dsize) {
        let mut x = [0u8; 8];
        x[..dsize].copy_from_slice(c);
        let mut v = u64::from_le_bytes(x) as u128;
        if bump && ds.is_empty() {
            v = 1u128 << (8 * dsize); // one more than the digit type holds
        }
        ds.push(v.to_string());
    }
    if drop_last {
        ds.pop();
    }
    if extra {
        ds.push("0".to_string());
    }
    let inner = format!("{{\"digits\":[{}]}}", ds.join(","));
    if signed {
        format!("{{\"bits\":{}}}", inner)
    } else {
        inner
    }
}

fn run_type<T>(rec: &mut Rec, seed: u64, dsize: usize, thorough: bool)
where
    T: Bn + serde::Serialize + serde::de::DeserializeOwned + borsh::BorshSerialize + borsh::BorshDeserialize + zeroize::Zeroize + for<'a> arbitrary::Arbitrary<'a>,
{
    let n = (T::W / 8) as usize;
    let mut r = Rng::new(seed ^ ((T::W as u64) << 28) ^ (T::S as u64) ^ ((dsize as u64) << 50) ^ 0xC0DEC);
    rec.sem = "X01";
    let vals = gen::values(&mut r, n, if thorough { 120 } else { 30 });
    for b in vals.iter() {
        let x = T::dec(b);
        rec.fam("serde", vec![int(&x)]);
        rec.form("json_digits", || match serde_json::to_string(&x) {
            Ok(t) => json_digit_bytes(&t, T::S, dsize),
            Err(_) => Out::Err_("ser".to_string()),
        });
        rec.form("json_roundtrip", || err_out(serde_json::to_string(&x).map_err(|_| ()).and_then(|t| serde_json::from_str::<T>(&t).map_err(|_| ())), val));
        rec.form("json_from_text", || err_out(serde_json::from_str::<T>(&json_text(b, T::S, dsize, false, false, false)), val));
        rec.fam("serde_bad", vec![int(&x)]);
        rec.form("short", || err_out(serde_json::from_str::<T>(&json_text(b, T::S, dsize, true, false, false)), val));
        rec.form("long", || err_out(serde_json::from_str::<T>(&json_text(b, T::S, dsize, false, true, false)), val));
        if dsize < 8 {
            rec.form("digit_overflow", || err_out(serde_json::from_str::<T>(&json_text(b, T::S, dsize, false, false, true)), val));
        }
        rec.form("wrong_field", || err_out(serde_json::from_str::<T>(&json_text(b, !T::S, dsize, false, false, false)), val));
        rec.fam("borsh", vec![int(&x)]);
        rec.form("bytes", || match borsh::to_vec(&x) {
            Ok(v) => Out::Bytes(v),
            Err(_) => Out::Err_("ser".to_string()),
        });
        rec.form("roundtrip", || err_out(borsh::to_vec(&x).map_err(|_| ()).and_then(|v| borsh::from_slice::<T>(&v).map_err(|_| ())), val));
        rec.form("from_enc", || err_out(borsh::from_slice::<T>(b), val));
        rec.fam("borsh_bad", vec![int(&x)]);
        rec.form("short", || err_out(borsh::from_slice::<T>(&b[..n - 1]), val));
        rec.form("long", || {
            let mut v = b.clone();
            v.push(0);
            err_out(borsh::from_slice::<T>(&v), val)
        });
        rec.fam("zeroize", vec![int(&x)]);
        rec.form("zeroize", || {
            let mut y = x;
            zeroize::Zeroize::zeroize(&mut y);
            val(y)
        });
    }
    // arbitrary: byte streams shorter than, equal to and longer than the type
    let ty = Arg::Int { w: T::W, s: T::S, v: vec![] };
    let mut streams: Vec<B> = vec![vec![], vec![1], vec![0xff; n], vec![0xff; n + 3], vec![0x80; n.saturating_sub(1)]];
    for _ in 0..(if thorough { 40 } else { 8 }) {
        let len = r.below(2 * n as u64 + 2) as usize;
        streams.push((0..len).map(|_| (r.next() >> 9) as u8).collect());
    }
    for s in streams {
        rec.ev("arbitrary", vec![bytes(&s), ty.clone()], || {
            let mut u = arbitrary::Unstructured::new(&s);
            err_out(<T as arbitrary::Arbitrary>::arbitrary(&mut u), val)
        });
    }
}

macro_rules! go {
    ($sink:expr, $seed:expr, $thorough:expr; $(($U:ident, $I:ident, $ds:literal; $($n:literal),*)),*) => {$($(
        {
            let mut ru = Rec::new();
            run_type::<$U<$n>>(&mut ru, $seed, $ds, $thorough);
            $sink.merge(<$U<$n> as Bn>::W, false, "bnum", vec![(<$U<$n> as Bn>::DT, ru)]);
            let mut ri = Rec::new();
            run_type::<$I<$n>>(&mut ri, $seed, $ds, $thorough);
            $sink.merge(<$I<$n> as Bn>::W, true, "bnum", vec![(<$I<$n> as Bn>::DT, ri)]);
        }
    )*)*};
}

fn main() {
    install_hook();
    let cli = parse_cli();
    let mut sink = Sink::new(&cli.out, "X01");
    let thorough = cli.tier == "thorough";
    go!(sink, cli.seed, thorough;
        (BUint, BInt, 8; 1, 2, 3, 5, 16, 33),
        (BUintD32, BIntD32, 4; 1, 2, 3, 7, 32, 40),
        (BUintD16, BIntD16, 2; 1, 3, 4, 9, 33, 64),
        (BUintD8, BIntD8, 1; 1, 2, 3, 8, 17, 33, 100));
    let (n, splits) = sink.finish();
    eprintln!("recorded {} events, {} digit-type splits", n, splits);
}
