//! Boundary-directed and random operand generators.  Operands are little-endian byte arrays of
//! the type's width; the same operands are given to every digit type of that width.
//! Patterns are placed at byte/u16/u32/u64 granularity so that every digit type sees carries that
//! cross its own digit boundaries.

#[derive(Clone)]
pub struct Rng(pub u64);

impl Rng {
    pub fn new(seed: u64) -> Self {
        Rng(seed.wrapping_mul(0x9E3779B97F4A7C15) ^ 0xD1B54A32D192ED03)
    }
    pub fn next(&mut self) -> u64 {
        // splitmix64
        self.0 = self.0.wrapping_add(0x9E3779B97F4A7C15);
        let mut z = self.0;
        z = (z ^ (z >> 30)).wrapping_mul(0xBF58476D1CE4E5B9);
        z = (z ^ (z >> 27)).wrapping_mul(0x94D049BB133111EB);
        z ^ (z >> 31)
    }
    pub fn below(&mut self, n: u64) -> u64 {
        if n == 0 {
            0
        } else {
            self.next() % n
        }
    }
    pub fn pick<'a, T>(&mut self, v: &'a [T]) -> &'a T {
        &v[self.below(v.len() as u64) as usize]
    }
    pub fn bytes(&mut self, n: usize) -> Vec<u8> {
        let mut v = Vec::with_capacity(n);
        while v.len() < n {
            let x = self.next().to_le_bytes();
            for b in x {
                if v.len() < n {
                    v.push(b);
                }
            }
        }
        v
    }
}

pub type B = Vec<u8>;

pub fn zero(n: usize) -> B {
    vec![0; n]
}
pub fn ones(n: usize) -> B {
    vec![0xff; n]
}
pub fn small(n: usize, x: u64) -> B {
    let mut v = vec![0u8; n];
    let xb = x.to_le_bytes();
    for i in 0..n.min(8) {
        v[i] = xb[i];
    }
    v
}
/// two's-complement negation of a pattern
pub fn negate(a: &B) -> B {
    let mut v: B = a.iter().map(|x| !x).collect();
    for b in v.iter_mut() {
        let (r, c) = b.overflowing_add(1);
        *b = r;
        if !c {
            break;
        }
    }
    v
}
pub fn add1(a: &B) -> B {
    let mut v = a.clone();
    for b in v.iter_mut() {
        let (r, c) = b.overflowing_add(1);
        *b = r;
        if !c {
            break;
        }
    }
    v
}
pub fn sub1(a: &B) -> B {
    let mut v = a.clone();
    for b in v.iter_mut() {
        let (r, c) = b.overflowing_sub(1);
        *b = r;
        if !c {
            break;
        }
    }
    v
}
/// 2^k as a pattern (zero if k >= 8n)
pub fn pow2(n: usize, k: usize) -> B {
    let mut v = vec![0u8; n];
    if k < 8 * n {
        v[k / 8] = 1 << (k % 8);
    }
    v
}
/// signed minimum 0x80 00 .. 00
pub fn smin(n: usize) -> B {
    let mut v = vec![0u8; n];
    v[n - 1] = 0x80;
    v
}
/// signed maximum 0x7f ff .. ff
pub fn smax(n: usize) -> B {
    let mut v = vec![0xffu8; n];
    v[n - 1] = 0x7f;
    v
}

/// the fixed boundary values of a width of n bytes
pub fn boundary(n: usize) -> Vec<B> {
    let mut v: Vec<B> = Vec::new();
    v.push(zero(n));
    v.push(small(n, 1));
    v.push(small(n, 2));
    v.push(ones(n)); // -1 / MAX
    v.push(sub1(&ones(n))); // -2 / MAX-1
    v.push(smin(n));
    v.push(add1(&smin(n)));
    v.push(smax(n));
    v.push(sub1(&smax(n)));
    // digit-boundary values at every granularity
    for g in [1usize, 2, 4, 8] {
        let mut k = g;
        while k < n {
            let p = pow2(n, 8 * k);
            v.push(sub1(&p)); // low k bytes all ones
            v.push(p.clone()); // 2^(8k)
            v.push(add1(&p));
            v.push(negate(&p)); // high bytes all ones, low k bytes zero
            k += g;
        }
    }
    // the bounds of the primitive integers embedded in a wider type (boundaries of fast paths through primitives)
    for k in [7usize, 15, 31, 63, 127] {
        if k + 1 < 8 * n {
            let p = pow2(n, k);
            v.push(p.clone());
            v.push(sub1(&p));
            v.push(add1(&p));
            v.push(negate(&p));
            v.push(sub1(&negate(&p)));
            v.push(add1(&negate(&p)));
        }
    }
    // half-width values
    let h = 4 * n;
    v.push(pow2(n, h));
    v.push(sub1(&pow2(n, h)));
    v.push(add1(&pow2(n, h)));
    v.push(pow2(n, 8 * n - 2));
    v.push(small(n, 10));
    v.push(small(n, 3));
    v.push(negate(&small(n, 3)));
    v.push(negate(&small(n, 10)));
    v.sort();
    v.dedup();
    v
}

const EXT8: [u8; 8] = [0x00, 0x01, 0x7f, 0x80, 0xfe, 0xff, 0x55, 0xaa];

/// a value whose digits (at granularity g bytes) are drawn from extreme values: 0, 1, MAX, MAX-1,
/// half, half-1, a run of ones at the bottom or the top of the digit (MAX >> k, MAX << k), or random.  This makes rare carry / quotient-correction cases common.
pub fn extreme(r: &mut Rng, n: usize) -> B {
    let g = *r.pick(&[1usize, 1, 2, 4, 8]);
    let mut v = vec![0u8; n];
    let mut i = 0;
    while i < n {
        let len = g.min(n - i);
        let c = r.below(10);
        if c >= 8 {
            // a run of ones inside the digit: MAX >> k (c = 8) or MAX << k (c = 9) for a random k
            let m = r.below(8 * len as u64 + 1) as usize; // number of one bits
            for j in 0..len {
                let lo = 8 * j;
                let bits_here = if c == 8 {
                    // ones in positions [0, m)
                    if m >= lo + 8 { 0xffu32 } else if m > lo { (1u32 << (m - lo)) - 1 } else { 0 }
                } else {
                    // ones in positions [8*len - m, 8*len)
                    let start = 8 * len - m;
                    if start <= lo { 0xffu32 } else if start < lo + 8 { (0xffu32 << (start - lo)) & 0xff } else { 0 }
                };
                v[i + j] = bits_here as u8;
            }
            i += len;
            continue;
        }
        for j in 0..len {
            let top = j == len - 1;
            let bot = j == 0;
            v[i + j] = match c {
                0 => 0,
                1 => {
                    if bot {
                        1
                    } else {
                        0
                    }
                }
                2 => 0xff,
                3 => {
                    if bot {
                        0xfe
                    } else {
                        0xff
                    }
                }
                4 => {
                    if top {
                        0x80
                    } else {
                        0
                    }
                }
                5 => {
                    if top {
                        0x7f
                    } else {
                        0xff
                    }
                }
                _ => (r.next() & 0xff) as u8,
            };
        }
        i += len;
    }
    v
}

/// a value with a random number of significant bytes, zero- or one-extended above
pub fn short(r: &mut Rng, n: usize) -> B {
    let k = 1 + r.below(n as u64) as usize;
    let fill = if r.below(3) == 0 { 0xff } else { 0 };
    let mut v = vec![fill; n];
    let rb = r.bytes(k);
    v[..k].copy_from_slice(&rb);
    v
}

pub fn random(r: &mut Rng, n: usize) -> B {
    r.bytes(n)
}

/// every digit (at granularity g bytes) a run of ones at the bottom or the top of the digit (MAX >> k, MAX << k):
/// quotient-digit estimates made from half digits or top digits are wrong, and corrected, unusually often
pub fn runs(r: &mut Rng, n: usize, g: usize) -> B {
    let mut v = vec![0u8; n];
    let mut i = 0;
    while i < n {
        let len = g.min(n - i);
        let m = r.below(8 * len as u64 + 1) as usize;
        let low = r.below(2) == 0;
        for j in 0..len {
            let lo = 8 * j;
            let b = if low {
                if m >= lo + 8 { 0xffu32 } else if m > lo { (1u32 << (m - lo)) - 1 } else { 0 }
            } else {
                let start = 8 * len - m;
                if start <= lo { 0xffu32 } else if start < lo + 8 { (0xffu32 << (start - lo)) & 0xff } else { 0 }
            };
            v[i + j] = b as u8;
        }
        i += len;
    }
    v
}

/// a non-negative value with exactly `bits` significant bits (0 < bits <= 8n) and a random mantissa
pub fn with_bits(r: &mut Rng, n: usize, bits: usize) -> B {
    let mut v = r.bytes(n);
    let top = bits - 1;
    for k in 0..n {
        if 8 * k > top {
            v[k] = 0;
        }
    }
    let keep = (top % 8) as u32;
    v[top / 8] &= ((1u32 << (keep + 1)) - 1) as u8;
    v[top / 8] |= 1 << keep;
    v
}

/// operand pairs related through their BIT LENGTHS rather than their values: len(a) + len(b) in
/// {total - 1, total, total + 1} for the given total, with len(a) at the structural points (half the total,
/// half +- 1, a digit boundary +- 1, random) and random mantissas -- the places where estimates made from
/// leading_zeros/bits() are off by one
pub fn bitlen_pairs(r: &mut Rng, n: usize, total: usize, count: usize) -> Vec<(B, B)> {
    let w = 8 * n;
    let mut out = Vec::new();
    let mut ks: Vec<usize> = vec![total / 2, total / 2 + 1, (total / 2).saturating_sub(1), 1, 2, 8, 9, 63, 64, 65];
    while ks.len() < count {
        ks.push(1 + r.below(w as u64) as usize);
    }
    for (i, k) in ks.into_iter().enumerate() {
        let t = total + 1 - (i % 3); // total + 1, total, total - 1
        if k == 0 || k >= t || k > w || t - k > w || t - k == 0 {
            continue;
        }
        out.push((with_bits(r, n, k), with_bits(r, n, t - k)));
    }
    out
}

/// a mixed draw
/// digit sequences with internal symmetry, at a random digit granularity: one random digit in every position,
/// a palindromic digit sequence (digit i == digit N-1-i), or a random value with one digit copied onto another.
/// (Loops that exchange, compare or combine pairs of digits behave specially when two digits are equal.)
pub fn repeated(r: &mut Rng, n: usize) -> B {
    let g = *r.pick(&[1usize, 2, 4, 8]);
    let kind = r.below(3);
    symmetric(r, n, g, kind)
}
/// kind 0: one random g-byte digit in every position; 1: palindromic digit order; 2: one digit copied onto another
pub fn symmetric(r: &mut Rng, n: usize, g: usize, kind: u64) -> B {
    let mut v = random(r, n);
    let nd = n / g;
    if nd < 2 {
        return v;
    }
    match kind {
        0 => {
            for k in 1..nd {
                for t in 0..g {
                    v[k * g + t] = v[t];
                }
            }
        }
        1 => {
            for k in 0..nd / 2 {
                for t in 0..g {
                    v[(nd - 1 - k) * g + t] = v[k * g + t];
                }
            }
        }
        _ => {
            let i = r.below(nd as u64) as usize;
            let j = r.below(nd as u64) as usize;
            for t in 0..g {
                v[j * g + t] = v[i * g + t];
            }
        }
    }
    v
}

/// the extremes of the NARROWER digit / primitive types sitting in a digit of a wider type (0xff, 0x100, 0xffff,
/// 0x1_0000, 0xffff_ffff, ... as the value of a whole u16 / u32 / u64 digit), other digits zero, all ones or random,
/// either sign: a constant or a mask of the wrong digit type (`u8::MAX as u32` where `u32::MAX` was meant, a fold
/// into a narrower accumulator) is right for every digit except these
pub fn narrow_in_wide(r: &mut Rng, n: usize) -> B {
    const NB: [u64; 12] = [0x7f, 0x80, 0xff, 0x100, 0x7fff, 0x8000, 0xffff, 0x1_0000, 0x7fff_ffff, 0x8000_0000, 0xffff_ffff, 0x1_0000_0000];
    let gs: Vec<usize> = [2usize, 4, 8].into_iter().filter(|g| *g <= n).collect();
    if gs.is_empty() {
        return random(r, n);
    }
    let g = *r.pick(&gs);
    let mut v = vec![0u8; n];
    let mut i = 0;
    while i < n {
        let len = g.min(n - i);
        let val: u64 = match r.below(8) {
            0..=3 => {
                let cands: Vec<u64> = NB.iter().copied().filter(|x| len >= 8 || *x < (1u64 << (8 * len))).collect();
                *r.pick(&cands)
            }
            4 => 0,
            5 => u64::MAX,
            _ => r.next(),
        };
        for j in 0..len {
            v[i + j] = (val >> (8 * j)) as u8;
        }
        i += len;
    }
    match r.below(3) {
        0 => v[n - 1] |= 0x80,
        1 => v[n - 1] &= 0x7f,
        _ => {}
    }
    v
}

pub fn any(r: &mut Rng, n: usize, bnd: &[B]) -> B {
    match r.below(12) {
        0..=2 => r.pick(bnd).clone(),
        3..=5 => extreme(r, n),
        6..=7 => short(r, n),
        8 => repeated(r, n),
        9 => narrow_in_wide(r, n),
        _ => random(r, n),
    }
}

/// `count` values: every boundary value first (if they fit), then mixed draws
pub fn values(r: &mut Rng, n: usize, count: usize) -> Vec<B> {
    let bnd = boundary(n);
    let mut v: Vec<B> = Vec::new();
    if bnd.len() <= count {
        v.extend(bnd.iter().cloned());
    } else {
        // a random subset, but always the nine fixed ones
        let fixed = [zero(n), small(n, 1), ones(n), smin(n), smax(n), sub1(&ones(n)), add1(&smin(n)), sub1(&smax(n)), small(n, 2)];
        v.extend(fixed.iter().cloned());
        while v.len() < count {
            v.push(r.pick(&bnd).clone());
        }
    }
    while v.len() < count {
        v.push(any(r, n, &bnd));
    }
    v
}

/// pairs: structured carry/borrow pairs, boundary x boundary samples and mixed draws
pub fn pairs(r: &mut Rng, n: usize, count: usize) -> Vec<(B, B)> {
    let bnd = boundary(n);
    let mut v: Vec<(B, B)> = Vec::new();
    // the sign/overflow corners
    let corners = [zero(n), small(n, 1), ones(n), smin(n), smax(n)];
    for a in corners.iter() {
        for b in corners.iter() {
            v.push((a.clone(), b.clone()));
        }
    }
    // carry chains through k whole digits at each granularity: (2^(8k) - 1) + 1, and borrow chains 2^(8k) - 1
    for g in [1usize, 2, 4, 8] {
        let mut k = g;
        while k <= n {
            let p = if k == n { zero(n) } else { pow2(n, 8 * k) };
            let m = sub1(&p);
            if r.below(2) == 0 || count >= 200 {
                v.push((m.clone(), small(n, 1)));
                v.push((p.clone(), small(n, 1)));
                v.push((m.clone(), m.clone()));
            }
            k += g;
        }
    }
    // primitive bounds embedded in a wider type, paired with themselves and with 0, 1, -1
    for k in [7usize, 15, 31, 63, 127] {
        if k + 1 < 8 * n && (count >= 200 || r.below(2) == 0) {
            let p = pow2(n, k);
            for sp in [negate(&p), p.clone(), sub1(&p)] {
                v.push((sp.clone(), sp.clone()));
                v.push((sp.clone(), zero(n)));
                v.push((zero(n), sp.clone()));
                v.push((sp.clone(), ones(n)));
                v.push((sp.clone(), small(n, 1)));
            }
        }
    }
    let count = count.max(v.len() + 20);
    while v.len() < count {
        let a = any(r, n, &bnd);
        let b = match r.below(12) {
            0 => a.clone(),
            1 => negate(&a),
            2 => add1(&negate(&a)),
            3 => sub1(&negate(&a)),
            4 => a.iter().map(|x| !x).collect(),
            // relations between the DIGITS of the two operands, at a random granularity:
            // equal except for one digit (complemented, or off by one)
            5 => {
                let g = *r.pick(&[1usize, 2, 4, 8]);
                let nd = (n + g - 1) / g;
                let k = r.below(nd as u64) as usize;
                let mut b = a.clone();
                let lo = k * g;
                let hi = (lo + g).min(n);
                if r.below(2) == 0 {
                    for t in lo..hi {
                        b[t] = !b[t];
                    }
                } else {
                    let d = add1(&b[lo..hi].to_vec());
                    b[lo..hi].copy_from_slice(&d);
                }
                b
            }
            // one digit of b is a function (copy, complement, successor) of ANOTHER digit of a
            6 => {
                let g = *r.pick(&[1usize, 2, 4, 8]);
                let nd = n / g;
                let mut b = any(r, n, &bnd);
                if nd >= 2 {
                    let i = r.below(nd as u64) as usize;
                    let j = (i + 1 + r.below(nd as u64 - 1) as usize) % nd;
                    let src: Vec<u8> = a[j * g..(j + 1) * g].to_vec();
                    let d: Vec<u8> = match r.below(3) {
                        0 => src,
                        1 => src.iter().map(|x| !x).collect(),
                        _ => add1(&src),
                    };
                    b[i * g..(i + 1) * g].copy_from_slice(&d);
                }
                b
            }
            // a copy of a moved by whole digits (shifted up or down, or rotated)
            7 => {
                let g = *r.pick(&[1usize, 2, 4, 8]);
                let k = g * (1 + r.below(((n / g).max(2) - 1) as u64) as usize);
                let k = k % n.max(1);
                let mut b = vec![0u8; n];
                match r.below(3) {
                    0 => {
                        for t in k..n {
                            b[t] = a[t - k];
                        }
                    }
                    1 => {
                        for t in 0..n - k {
                            b[t] = a[t + k];
                        }
                    }
                    _ => {
                        for t in 0..n {
                            b[(t + k) % n] = a[t];
                        }
                    }
                }
                b
            }
            _ => any(r, n, &bnd),
        };
        v.push((a, b));
    }
    v.truncate(count.max(25));
    v
}

// ---------------------------------------------------------------------------------------------
// small unsigned big-number helpers on little-endian byte vectors, used ONLY to construct
// interesting operands (products near 2^W, exact multiples +-1, exact powers); never as an oracle.

pub fn trim(mut a: B) -> B {
    while a.last() == Some(&0) {
        a.pop();
    }
    a
}
pub fn fit(a: &B, n: usize) -> B {
    let mut v = a.clone();
    v.resize(n, 0);
    v
}
pub fn ucmp(a: &B, b: &B) -> std::cmp::Ordering {
    let (a, b) = (trim(a.clone()), trim(b.clone()));
    if a.len() != b.len() {
        return a.len().cmp(&b.len());
    }
    for i in (0..a.len()).rev() {
        if a[i] != b[i] {
            return a[i].cmp(&b[i]);
        }
    }
    std::cmp::Ordering::Equal
}
pub fn uadd(a: &B, b: &B) -> B {
    let n = a.len().max(b.len());
    let mut v = Vec::with_capacity(n + 1);
    let mut c = 0u16;
    for i in 0..n {
        let s = *a.get(i).unwrap_or(&0) as u16 + *b.get(i).unwrap_or(&0) as u16 + c;
        v.push(s as u8);
        c = s >> 8;
    }
    if c > 0 {
        v.push(c as u8);
    }
    v
}
/// a - b for a >= b
pub fn usub(a: &B, b: &B) -> B {
    let mut v = Vec::with_capacity(a.len());
    let mut br = 0i16;
    for i in 0..a.len() {
        let mut d = a[i] as i16 - *b.get(i).unwrap_or(&0) as i16 - br;
        if d < 0 {
            d += 256;
            br = 1;
        } else {
            br = 0;
        }
        v.push(d as u8);
    }
    v
}
pub fn umul(a: &B, b: &B) -> B {
    let mut v = vec![0u8; a.len() + b.len()];
    for i in 0..a.len() {
        let mut c = 0u32;
        for j in 0..b.len() {
            let t = v[i + j] as u32 + a[i] as u32 * b[j] as u32 + c;
            v[i + j] = t as u8;
            c = t >> 8;
        }
        let mut k = i + b.len();
        while c > 0 {
            let t = v[k] as u32 + c;
            v[k] = t as u8;
            c = t >> 8;
            k += 1;
        }
    }
    v
}
/// (a div b, a mod b), b != 0; bitwise shift-subtract
pub fn udivrem(a: &B, b: &B) -> (B, B) {
    let nb = a.len() * 8;
    let mut q = vec![0u8; a.len()];
    let mut r: B = vec![0u8; b.len() + 1];
    for i in (0..nb).rev() {
        // r = r*2 + bit
        let mut c = (a[i / 8] >> (i % 8)) & 1;
        for x in r.iter_mut() {
            let t = (*x >> 7) & 1;
            *x = (*x << 1) | c;
            c = t;
        }
        if ucmp(&r, b) != std::cmp::Ordering::Less {
            r = usub(&r, b);
            q[i / 8] |= 1 << (i % 8);
        }
    }
    (q, r)
}
/// b^k truncated to n bytes, and whether it overflowed n bytes
pub fn upow(b: &B, k: u32, n: usize) -> (B, bool) {
    let tb = trim(b.clone());
    let mut acc = small(n, 1);
    let mut ov = false;
    for _ in 0..k {
        let p = umul(&trim(acc.clone()), &tb);
        if p.len() > n && p[n..].iter().any(|x| *x != 0) {
            ov = true;
        }
        acc = fit(&p[..p.len().min(n)].to_vec(), n);
        if ov {
            break;
        }
    }
    (acc, ov)
}

/// compare two patterns of equal length as two's-complement signed numbers
pub fn scmp(a: &B, b: &B) -> std::cmp::Ordering {
    let sa = a[a.len() - 1] & 0x80 != 0;
    let sb = b[b.len() - 1] & 0x80 != 0;
    if sa != sb {
        return if sa { std::cmp::Ordering::Less } else { std::cmp::Ordering::Greater };
    }
    for i in (0..a.len()).rev() {
        if a[i] != b[i] {
            return a[i].cmp(&b[i]);
        }
    }
    std::cmp::Ordering::Equal
}

// ---------------------------------------------------------------------------------------------
// exact sign-magnitude helpers, used to decide preconditions of `unchecked_*` calls without asking
// the library under test

/// (negative?, magnitude) of a pattern read as signed / unsigned
pub fn to_sm(a: &B, signed: bool) -> (bool, B) {
    if signed && a[a.len() - 1] & 0x80 != 0 {
        (true, trim(negate(a)))
    } else {
        (false, trim(a.clone()))
    }
}
fn sm_add(x: &(bool, B), y: &(bool, B)) -> (bool, B) {
    if x.0 == y.0 {
        (x.0, trim(uadd(&x.1, &y.1)))
    } else if ucmp(&x.1, &y.1) != std::cmp::Ordering::Less {
        let m = trim(usub(&x.1, &y.1));
        (x.0 && !m.is_empty(), m)
    } else {
        (y.0, trim(usub(&y.1, &x.1)))
    }
}
/// is the exact integer (neg, mag) representable in n bytes, signed or unsigned?
pub fn sm_fits(v: &(bool, B), n: usize, signed: bool) -> bool {
    let m = trim(v.1.clone());
    if m.is_empty() {
        return true;
    }
    if !signed {
        return !v.0 && m.len() <= n;
    }
    let lim = trim(smin(n)); // 2^(8n-1)
    match ucmp(&m, &lim) {
        std::cmp::Ordering::Less => true,
        std::cmp::Ordering::Equal => v.0,
        std::cmp::Ordering::Greater => false,
    }
}
pub fn add_fits(a: &B, b: &B, signed: bool) -> bool {
    sm_fits(&sm_add(&to_sm(a, signed), &to_sm(b, signed)), a.len(), signed)
}
pub fn sub_fits(a: &B, b: &B, signed: bool) -> bool {
    let y = to_sm(b, signed);
    let ny = (!y.0 && !y.1.is_empty(), y.1);
    sm_fits(&sm_add(&to_sm(a, signed), &ny), a.len(), signed)
}
pub fn mul_fits(a: &B, b: &B, signed: bool) -> bool {
    let (x, y) = (to_sm(a, signed), to_sm(b, signed));
    let m = trim(umul(&x.1, &y.1));
    sm_fits(&(x.0 != y.0 && !m.is_empty(), m), a.len(), signed)
}
