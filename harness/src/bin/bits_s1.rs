//! Recorder for C05 (shifts, rotations), C06 (bitwise logic, counts, bit manipulation) and
//! C07 (comparison, equality, hashing).
//! This binary: chunk 1 of the width sweep (every digit count 1..33 of every digit type; see lib.rs).
#![allow(unused_macros, unused_imports, unused_variables, unused_mut)]
#![allow(unstable_name_collisions)]

macro_rules! the_matrix {
    ($m:ident) => {
        bnum_verif_harness::for_sweep1!($m);
    };
}
macro_rules! the_giants {
    ($m:ident) => {
        bnum_verif_harness::for_nothing!($m);
    };
}
include!("../drv/bits.rs");
