//! Recorder for C10 (parsing), C11 (radix output) and C12 (formatting traits).
//! This binary: chunk 2 of the width sweep (every digit count 1..33 of every digit type; see lib.rs).
#![allow(unused_macros, unused_imports, unused_variables, unused_mut)]

macro_rules! the_matrix {
    ($m:ident) => {
        bnum_verif_harness::for_sweep2!($m);
    };
}
macro_rules! the_giants {
    ($m:ident) => {
        bnum_verif_harness::for_nothing!($m);
    };
}
include!("../drv/text.rs");
