//! Recorder for C20 (random generation): Standard / Fill / try_fill_slice derive every byte from the
//! RNG stream in little-endian order; uniform sampling stays in range and -- enumerated completely over
//! all RNG words for 8-, 16- and (for a few ranges) 24-bit types -- maps accepted words onto the range
//! with equal preimage counts.  The RNG is scripted: a chosen byte prefix followed by a seeded stream.
#![allow(unused_macros, unused_imports, unused_variables, unused_mut)]

macro_rules! the_matrix {
    ($m:ident) => {
        bnum_verif_harness::for_matrix!($m);
    };
}
macro_rules! the_giants {
    ($m:ident) => {
        bnum_verif_harness::for_giants!($m);
    };
}
include!("../drv/rand.rs");
