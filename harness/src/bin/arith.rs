//! Recorder for the arithmetic properties C01 (add/sub/neg/abs), C02 (mul), C03 (div/rem),
//! C04 (panics per build mode), C08 (pow/ilog).  One event per call family and operand tuple.
#![allow(unused_macros, unused_imports, unused_variables)]
#![allow(unstable_name_collisions)]

use bnum_verif_harness::gen::{self, Rng, B};
use bnum_verif_harness::*;

// ----------------------------------------------------------------------------------------------
// C01

macro_rules! c01_pair {
    ($U:ty, $I:ty, $ru:expr, $ri:expr, $a:expr, $b:expr, $prim:tt) => {{
        let (ab, bb): (&B, &B) = ($a, $b);
        let ua = <$U as Bn>::dec(ab);
        let ub = <$U as Bn>::dec(bb);
        let ia = <$I as Bn>::dec(ab);
        let ib = <$I as Bn>::dec(bb);
        // add / sub, same-type operands, both signednesses
        c01_same!($U, $ru, ua, ub, $prim);
        c01_same!($I, $ri, ia, ib, $prim);
        // mixed-sign families
        $ru.fam("add_signed", vec![int(&ua), int(&ib)]);
        $ru.form("overflowing", || pairf(ua.overflowing_add_signed(ib)));
        $ru.form("checked", || opt(ua.checked_add_signed(ib)));
        $ru.form("wrapping", || val(ua.wrapping_add_signed(ib)));
        $ru.form("saturating", || val(ua.saturating_add_signed(ib)));
        $ru.form("strict", || val(ua.strict_add_signed(ib)));
        $ri.fam("add_unsigned", vec![int(&ia), int(&ub)]);
        $ri.form("overflowing", || pairf(ia.overflowing_add_unsigned(ub)));
        $ri.form("checked", || opt(ia.checked_add_unsigned(ub)));
        $ri.form("wrapping", || val(ia.wrapping_add_unsigned(ub)));
        $ri.form("saturating", || val(ia.saturating_add_unsigned(ub)));
        $ri.form("strict", || val(ia.strict_add_unsigned(ub)));
        $ri.fam("sub_unsigned", vec![int(&ia), int(&ub)]);
        $ri.form("overflowing", || pairf(ia.overflowing_sub_unsigned(ub)));
        $ri.form("checked", || opt(ia.checked_sub_unsigned(ub)));
        $ri.form("wrapping", || val(ia.wrapping_sub_unsigned(ub)));
        $ri.form("saturating", || val(ia.saturating_sub_unsigned(ub)));
        $ri.form("strict", || val(ia.strict_sub_unsigned(ub)));
        // carry helpers with both carry-in values
        for c in [false, true] {
            $ru.ev("carrying_add", vec![int(&ua), int(&ub), boolean(c)], || pairf(ua.carrying_add(ub, c)));
            $ru.ev("borrowing_sub", vec![int(&ua), int(&ub), boolean(c)], || pairf(ua.borrowing_sub(ub, c)));
            c01_signed_carry!($I, $ri, ia, ib, c, $prim);
        }
        $ru.ev("abs_diff", vec![int(&ua), int(&ub)], || val(ua.abs_diff(ub)));
        $ri.ev("abs_diff", vec![int(&ia), int(&ib)], || val(ia.abs_diff(ib)));
        $ru.ev("midpoint", vec![int(&ua), int(&ub)], || val(ua.midpoint(ub)));
        $ri.ev("midpoint", vec![int(&ia), int(&ib)], || val(ia.midpoint(ib)));
    }};
}

macro_rules! c01_signed_carry {
    ($I:ty, $ri:expr, $ia:expr, $ib:expr, $c:expr, bnum) => {
        $ri.ev("carrying_add", vec![int(&$ia), int(&$ib), boolean($c)], || pairf($ia.carrying_add($ib, $c)));
        $ri.ev("borrowing_sub", vec![int(&$ia), int(&$ib), boolean($c)], || pairf($ia.borrowing_sub($ib, $c)));
    };
    ($I:ty, $ri:expr, $ia:expr, $ib:expr, $c:expr, prim) => {};
}

macro_rules! c01_same {
    ($T:ty, $r:expr, $a:expr, $b:expr, $prim:tt) => {{
        let (a, b) = ($a, $b);
        $r.fam("add", vec![int(&a), int(&b)]);
        $r.form("overflowing", || pairf(a.overflowing_add(b)));
        $r.form("checked", || opt(a.checked_add(b)));
        $r.form("wrapping", || val(a.wrapping_add(b)));
        $r.form("saturating", || val(a.saturating_add(b)));
        $r.form("strict", || val(a.strict_add(b)));
        $r.form("op", || val(a + b));
        if a.checked_add(b).is_some() {
            $r.form("unchecked", || val(unsafe { a.unchecked_add(b) }));
        }
        $r.fam("sub", vec![int(&a), int(&b)]);
        $r.form("overflowing", || pairf(a.overflowing_sub(b)));
        $r.form("checked", || opt(a.checked_sub(b)));
        $r.form("wrapping", || val(a.wrapping_sub(b)));
        $r.form("saturating", || val(a.saturating_sub(b)));
        $r.form("strict", || val(a.strict_sub(b)));
        $r.form("op", || val(a - b));
        if a.checked_sub(b).is_some() {
            $r.form("unchecked", || val(unsafe { a.unchecked_sub(b) }));
        }
    }};
}

macro_rules! c01_unary {
    ($U:ty, $I:ty, $ru:expr, $ri:expr, $a:expr, $prim:tt) => {{
        let ab: &B = $a;
        let ua = <$U as Bn>::dec(ab);
        let ia = <$I as Bn>::dec(ab);
        $ru.fam("neg", vec![int(&ua)]);
        $ru.form("overflowing", || pairf(ua.overflowing_neg()));
        $ru.form("checked", || opt(ua.checked_neg()));
        $ru.form("wrapping", || val(ua.wrapping_neg()));
        $ru.form("strict", || val(ua.strict_neg()));
        $ri.fam("neg", vec![int(&ia)]);
        $ri.form("overflowing", || pairf(ia.overflowing_neg()));
        $ri.form("checked", || opt(ia.checked_neg()));
        $ri.form("wrapping", || val(ia.wrapping_neg()));
        $ri.form("saturating", || val(ia.saturating_neg()));
        $ri.form("strict", || val(ia.strict_neg()));
        $ri.form("op", || val(-ia));
        $ri.fam("abs", vec![int(&ia)]);
        $ri.form("overflowing", || pairf(ia.overflowing_abs()));
        $ri.form("checked", || opt(ia.checked_abs()));
        $ri.form("wrapping", || val(ia.wrapping_abs()));
        $ri.form("saturating", || val(ia.saturating_abs()));
        $ri.form("strict", || val(ia.strict_abs()));
        $ri.form("op", || val(ia.abs()));
        $ri.ev("unsigned_abs", vec![int(&ia)], || val(ia.unsigned_abs()));
    }};
}

struct Inputs {
    vals: Vec<B>,
    pairs: Vec<(B, B)>,
}

fn inputs_c01(seed: u64, w: u32, thorough: bool) -> Inputs {
    let n = (w / 8) as usize;
    let mut r = Rng::new(seed ^ ((w as u64) << 32) ^ 0xC01);
    let (nv, np) = if thorough { (400, 1500) } else { (40, 60) };
    Inputs { vals: gen::values(&mut r, n, nv), pairs: gen::pairs(&mut r, n, np) }
}

macro_rules! run_c01 {
    ($w:literal; $(($U:ty, $I:ty)),+) => {
        run_c01!(@go bnum, "bnum", $w; $(($U, $I)),+);
    };
    (@prim $w:literal; $(($U:ty, $I:ty)),+) => {
        run_c01!(@go prim, "prim", $w; $(($U, $I)),+);
    };
    (@go $prim:tt, $imp:literal, $w:literal; $(($U:ty, $I:ty)),+) => {
        CTX.with(|c| {
            let mut c = c.borrow_mut();
            let c = c.as_mut().unwrap();
            if c.cli.only_width.map_or(true, |x| x == $w) {
                let inp = inputs_c01(c.cli.seed, $w, c.cli.tier == "thorough");
                let mut us: Vec<(&'static str, Rec)> = Vec::new();
                let mut is: Vec<(&'static str, Rec)> = Vec::new();
                $(
                    {
                        let mut ru = Rec::new();
                        let mut ri = Rec::new();
                        for (a, b) in inp.pairs.iter() {
                            c01_pair!($U, $I, ru, ri, a, b, $prim);
                        }
                        for a in inp.vals.iter() {
                            c01_unary!($U, $I, ru, ri, a, $prim);
                        }
                        us.push((<$U as Bn>::DT, ru));
                        is.push((<$I as Bn>::DT, ri));
                    }
                )+
                c.sink.merge($w, false, $imp, us);
                c.sink.merge($w, true, $imp, is);
            }
        });
    };
}
macro_rules! run_c01_prim {
    ($w:literal; $(($U:ty, $I:ty)),+) => { run_c01!(@prim $w; $(($U, $I)),+); };
}

struct Ctx {
    cli: Cli,
    sink: Sink,
}
thread_local! {
    static CTX: std::cell::RefCell<Option<Ctx>> = std::cell::RefCell::new(None);
}

fn main() {
    install_hook();
    let cli = parse_cli();
    let prop = cli.prop.clone();
    let sink = Sink::new(&cli.out, &prop);
    let prims = cli.extra.iter().any(|x| x == "--prims");
    CTX.with(|c| *c.borrow_mut() = Some(Ctx { cli, sink }));
    match prop.as_str() {
        "C01" => {
            if prims {
                for_prims!(run_c01_prim);
            } else {
                for_matrix!(run_c01);
            }
        }
        p => panic!("unknown property {}", p),
    }
    let ctx = CTX.with(|c| c.borrow_mut().take().unwrap());
    let (n, splits) = ctx.sink.finish();
    eprintln!("recorded {} events, {} digit-type splits, mode {}", n, splits, MODE);
}
