//! Recorder for C10 (parsing), C11 (radix output) and C12 (formatting traits).
#![allow(unused_macros, unused_imports, unused_variables, unused_mut)]

macro_rules! the_matrix {
    ($m:ident) => {
        bnum_verif_harness::for_matrix!($m);
    };
}
macro_rules! the_giants {
    ($m:ident) => {
        bnum_verif_harness::for_giants!($m);
    };
}
include!("../drv/text.rs");
