//! Recorder for C14 (float <-> integer casts) and C19 (num_traits FromPrimitive / ToPrimitive /
//! AsPrimitive).  Floats are carried as their bit patterns (typed unsigned integers of 32/64 bits).
#![allow(unused_macros, unused_imports, unused_variables, unused_mut)]

macro_rules! the_matrix {
    ($m:ident) => {
        bnum_verif_harness::for_matrix!($m);
    };
}
macro_rules! the_giants {
    ($m:ident) => {
        bnum_verif_harness::for_giants!($m);
    };
}
include!("../drv/float.rs");
