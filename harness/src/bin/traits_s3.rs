//! Recorder for C17 (operator traits, assign/reference forms, folds, digit operands agree with the
//! inherent methods) and C18 (num_traits / num_integer implementations).
//! Forwarding forms are recorded as extra forms of the arithmetic families judged by the
//! semantics of C01/C02/C03/C04/C05/C06, so "agrees with the inherent method, including the panic
//! outcome, in both build modes" is checked against the same specification as the inherent method.
//! This binary: chunk 3 of the width sweep (every digit count 1..33 of every digit type; see lib.rs).
#![allow(unused_macros, unused_imports, unused_variables, unused_mut)]
#![allow(unstable_name_collisions)]

macro_rules! the_matrix {
    ($m:ident) => {
        bnum_verif_harness::for_sweep3!($m);
    };
}
macro_rules! the_giants {
    ($m:ident) => {
        bnum_verif_harness::for_nothing!($m);
    };
}
include!("../drv/traits.rs");
