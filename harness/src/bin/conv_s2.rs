//! Recorder for C09 (integer casts), C13 (checked conversions, digit access), C15 (byte slices and
//! endianness helpers) and C16 (constants, narrow/wide commutation).
//! This binary: chunk 2 of the width sweep (every digit count 1..33 of every digit type; see lib.rs).
#![allow(unused_macros, unused_imports, unused_variables, unused_mut)]
#![allow(unstable_name_collisions)]

macro_rules! the_matrix {
    ($m:ident) => {
        bnum_verif_harness::for_sweep2!($m);
    };
}
macro_rules! the_giants {
    ($m:ident) => {
        bnum_verif_harness::for_nothing!($m);
    };
}
include!("../drv/conv.rs");
