//! Recorder for C09 (integer casts), C13 (checked conversions, digit access), C15 (byte slices and
//! endianness helpers) and C16 (constants, narrow/wide commutation).
#![allow(unused_macros, unused_imports, unused_variables, unused_mut)]
#![allow(unstable_name_collisions)]

macro_rules! the_matrix {
    ($m:ident) => {
        bnum_verif_harness::for_matrix!($m);
    };
}
macro_rules! the_giants {
    ($m:ident) => {
        bnum_verif_harness::for_giants!($m);
    };
}
include!("../drv/conv.rs");
