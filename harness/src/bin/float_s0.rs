//! Recorder for C14 (float <-> integer casts) and C19 (num_traits FromPrimitive / ToPrimitive /
//! AsPrimitive).  Floats are carried as their bit patterns (typed unsigned integers of 32/64 bits).
//! This binary: chunk 0 of the width sweep (every digit count 1..33 of every digit type; see lib.rs).
#![allow(unused_macros, unused_imports, unused_variables, unused_mut)]

macro_rules! the_matrix {
    ($m:ident) => {
        bnum_verif_harness::for_sweep0!($m);
    };
}
macro_rules! the_giants {
    ($m:ident) => {
        bnum_verif_harness::for_nothing!($m);
    };
}
include!("../drv/float.rs");
