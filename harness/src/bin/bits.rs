//! Recorder for C05 (shifts, rotations), C06 (bitwise logic, counts, bit manipulation) and
//! C07 (comparison, equality, hashing).
#![allow(unused_macros, unused_imports, unused_variables, unused_mut)]
#![allow(unstable_name_collisions)]

macro_rules! the_matrix {
    ($m:ident) => {
        bnum_verif_harness::for_matrix!($m);
    };
}
macro_rules! the_giants {
    ($m:ident) => {
        bnum_verif_harness::for_giants!($m);
    };
}
include!("../drv/bits.rs");
