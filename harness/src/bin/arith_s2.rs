//! Recorder for the arithmetic properties C01 (add/sub/neg/abs), C02 (mul), C03 (div/rem),
//! C04 (panics per build mode), C08 (pow/ilog).  One event per call family and operand tuple;
//! the event's "p" field names the property whose semantics judges it.
//! This binary: chunk 2 of the width sweep (every digit count 1..33 of every digit type; see lib.rs).
#![allow(unused_macros, unused_imports, unused_variables, unused_mut)]
#![allow(unstable_name_collisions)]

macro_rules! the_matrix {
    ($m:ident) => {
        bnum_verif_harness::for_sweep2!($m);
    };
}
macro_rules! the_giants {
    ($m:ident) => {
        bnum_verif_harness::for_nothing!($m);
    };
}
include!("../drv/arith.rs");
