// body of the `arith` recorder, included by src/bin/arith.rs (the matrix of DESIGN.md 5.1) and by src/bin/arith_s<k>.rs
// (chunk k of the width sweep); `the_matrix!` and `the_giants!` are defined by the including file.

use bnum_verif_harness::gen::{self, Rng, B};
use bnum_verif_harness::*;

// ----------------------------------------------------------------------------------------------
// C01

macro_rules! c01_same {
    ($T:ty, $r:expr, $a:expr, $b:expr) => {{
        let (a, b) = ($a, $b);
        $r.sem = "C01";
        $r.fam("add", vec![int(&a), int(&b)]);
        $r.form("overflowing", || pairf(a.overflowing_add(b)));
        $r.form("checked", || opt(a.checked_add(b)));
        $r.form("wrapping", || val(a.wrapping_add(b)));
        $r.form("saturating", || val(a.saturating_add(b)));
        $r.form("strict", || val(a.strict_add(b)));
        $r.form("op", || val(a + b));
        if gen::add_fits(&a.enc(), &b.enc(), wsigned(&a)) {
            $r.form_unsafe("unchecked", || val(unsafe { a.unchecked_add(b) }));
        }
        $r.fam("sub", vec![int(&a), int(&b)]);
        $r.form("overflowing", || pairf(a.overflowing_sub(b)));
        $r.form("checked", || opt(a.checked_sub(b)));
        $r.form("wrapping", || val(a.wrapping_sub(b)));
        $r.form("saturating", || val(a.saturating_sub(b)));
        $r.form("strict", || val(a.strict_sub(b)));
        $r.form("op", || val(a - b));
        if gen::sub_fits(&a.enc(), &b.enc(), wsigned(&a)) {
            $r.form_unsafe("unchecked", || val(unsafe { a.unchecked_sub(b) }));
        }
    }};
}

macro_rules! c01_signed_carry {
    ($ri:expr, $ia:expr, $ib:expr, $c:expr, bnum) => {
        $ri.ev("carrying_add", vec![int(&$ia), int(&$ib), boolean($c)], || pairf($ia.carrying_add($ib, $c)));
        $ri.ev("borrowing_sub", vec![int(&$ia), int(&$ib), boolean($c)], || pairf($ia.borrowing_sub($ib, $c)));
    };
    ($ri:expr, $ia:expr, $ib:expr, $c:expr, prim) => {};
}

macro_rules! c01_pair {
    ($U:ty, $I:ty, $ru:expr, $ri:expr, $a:expr, $b:expr, $prim:tt) => {{
        let (ab, bb): (&B, &B) = ($a, $b);
        let ua = <$U as Bn>::dec(ab);
        let ub = <$U as Bn>::dec(bb);
        let ia = <$I as Bn>::dec(ab);
        let ib = <$I as Bn>::dec(bb);
        c01_same!($U, $ru, ua, ub);
        c01_same!($I, $ri, ia, ib);
        $ru.fam("add_signed", vec![int(&ua), int(&ib)]);
        $ru.form("overflowing", || pairf(ua.overflowing_add_signed(ib)));
        $ru.form("checked", || opt(ua.checked_add_signed(ib)));
        $ru.form("wrapping", || val(ua.wrapping_add_signed(ib)));
        $ru.form("saturating", || val(ua.saturating_add_signed(ib)));
        $ru.form("strict", || val(ua.strict_add_signed(ib)));
        $ri.fam("add_unsigned", vec![int(&ia), int(&ub)]);
        $ri.form("overflowing", || pairf(ia.overflowing_add_unsigned(ub)));
        $ri.form("checked", || opt(ia.checked_add_unsigned(ub)));
        $ri.form("wrapping", || val(ia.wrapping_add_unsigned(ub)));
        $ri.form("saturating", || val(ia.saturating_add_unsigned(ub)));
        $ri.form("strict", || val(ia.strict_add_unsigned(ub)));
        $ri.fam("sub_unsigned", vec![int(&ia), int(&ub)]);
        $ri.form("overflowing", || pairf(ia.overflowing_sub_unsigned(ub)));
        $ri.form("checked", || opt(ia.checked_sub_unsigned(ub)));
        $ri.form("wrapping", || val(ia.wrapping_sub_unsigned(ub)));
        $ri.form("saturating", || val(ia.saturating_sub_unsigned(ub)));
        $ri.form("strict", || val(ia.strict_sub_unsigned(ub)));
        for c in [false, true] {
            $ru.ev("carrying_add", vec![int(&ua), int(&ub), boolean(c)], || pairf(ua.carrying_add(ub, c)));
            $ru.ev("borrowing_sub", vec![int(&ua), int(&ub), boolean(c)], || pairf(ua.borrowing_sub(ub, c)));
            c01_signed_carry!($ri, ia, ib, c, $prim);
        }
        $ru.ev("abs_diff", vec![int(&ua), int(&ub)], || val(ua.abs_diff(ub)));
        $ri.ev("abs_diff", vec![int(&ia), int(&ib)], || val(ia.abs_diff(ib)));
        $ru.ev("midpoint", vec![int(&ua), int(&ub)], || val(ua.midpoint(ub)));
        $ri.ev("midpoint", vec![int(&ia), int(&ib)], || val(ia.midpoint(ib)));
    }};
}

macro_rules! c01_unary {
    ($U:ty, $I:ty, $ru:expr, $ri:expr, $a:expr, $prim:tt) => {{
        let ab: &B = $a;
        let ua = <$U as Bn>::dec(ab);
        let ia = <$I as Bn>::dec(ab);
        $ru.sem = "C01";
        $ri.sem = "C01";
        $ru.fam("neg", vec![int(&ua)]);
        $ru.form("overflowing", || pairf(ua.overflowing_neg()));
        $ru.form("checked", || opt(ua.checked_neg()));
        $ru.form("wrapping", || val(ua.wrapping_neg()));
        $ru.form("strict", || val(ua.strict_neg()));
        $ri.fam("neg", vec![int(&ia)]);
        $ri.form("overflowing", || pairf(ia.overflowing_neg()));
        $ri.form("checked", || opt(ia.checked_neg()));
        $ri.form("wrapping", || val(ia.wrapping_neg()));
        $ri.form("saturating", || val(ia.saturating_neg()));
        $ri.form("strict", || val(ia.strict_neg()));
        $ri.form("op", || val(-ia));
        $ri.fam("abs", vec![int(&ia)]);
        $ri.form("overflowing", || pairf(ia.overflowing_abs()));
        $ri.form("checked", || opt(ia.checked_abs()));
        $ri.form("wrapping", || val(ia.wrapping_abs()));
        $ri.form("saturating", || val(ia.saturating_abs()));
        $ri.form("strict", || val(ia.strict_abs()));
        $ri.form("op", || val(ia.abs()));
        $ri.ev("unsigned_abs", vec![int(&ia)], || val(ia.unsigned_abs()));
    }};
}

// ----------------------------------------------------------------------------------------------
// C02

macro_rules! c02_same {
    ($r:expr, $a:expr, $b:expr) => {{
        let (a, b) = ($a, $b);
        $r.sem = "C02";
        $r.fam("mul", vec![int(&a), int(&b)]);
        $r.form("overflowing", || pairf(a.overflowing_mul(b)));
        $r.form("checked", || opt(a.checked_mul(b)));
        $r.form("wrapping", || val(a.wrapping_mul(b)));
        $r.form("saturating", || val(a.saturating_mul(b)));
        $r.form("strict", || val(a.strict_mul(b)));
        $r.form("op", || val(a * b));
        if gen::mul_fits(&a.enc(), &b.enc(), wsigned(&a)) {
            $r.form_unsafe("unchecked", || val(unsafe { a.unchecked_mul(b) }));
        }
    }};
}
macro_rules! c02_widening {
    ($ru:expr, $ua:expr, $ub:expr, $uc:expr, bnum) => {
        $ru.ev("widening_mul", vec![int(&$ua), int(&$ub)], || wide($ua.widening_mul($ub)));
        $ru.ev("carrying_mul", vec![int(&$ua), int(&$ub), int(&$uc)], || wide($ua.carrying_mul($ub, $uc)));
    };
    ($ru:expr, $ua:expr, $ub:expr, $uc:expr, prim) => {
        $ru.ev("carrying_mul", vec![int(&$ua), int(&$ub), int(&$uc)], || wide($ua.carrying_mul($ub, $uc)));
    };
}
macro_rules! c02_triple {
    ($U:ty, $I:ty, $ru:expr, $ri:expr, $a:expr, $b:expr, $c:expr, $prim:tt) => {{
        let ua = <$U as Bn>::dec($a);
        let ub = <$U as Bn>::dec($b);
        let uc = <$U as Bn>::dec($c);
        let ia = <$I as Bn>::dec($a);
        let ib = <$I as Bn>::dec($b);
        c02_same!($ru, ua, ub);
        c02_same!($ri, ia, ib);
        c02_widening!($ru, ua, ub, uc, $prim);
    }};
}

// ----------------------------------------------------------------------------------------------
// C03

macro_rules! c03_same {
    ($r:expr, $a:expr, $b:expr, $prim:tt) => {{
        let (a, b) = ($a, $b);
        $r.sem = "C03";
        $r.fam("div", vec![int(&a), int(&b)]);
        $r.form("overflowing", || pairf(a.overflowing_div(b)));
        $r.form("checked", || opt(a.checked_div(b)));
        $r.form("wrapping", || val(a.wrapping_div(b)));
        $r.form("saturating", || val(a.saturating_div(b)));
        $r.form("strict", || val(a.strict_div(b)));
        $r.form("op", || val(a / b));
        $r.fam("rem", vec![int(&a), int(&b)]);
        $r.form("overflowing", || pairf(a.overflowing_rem(b)));
        $r.form("checked", || opt(a.checked_rem(b)));
        $r.form("wrapping", || val(a.wrapping_rem(b)));
        $r.form("strict", || val(a.strict_rem(b)));
        $r.form("op", || val(a % b));
        $r.fam("div_euclid", vec![int(&a), int(&b)]);
        $r.form("overflowing", || pairf(a.overflowing_div_euclid(b)));
        $r.form("checked", || opt(a.checked_div_euclid(b)));
        $r.form("wrapping", || val(a.wrapping_div_euclid(b)));
        $r.form("strict", || val(a.strict_div_euclid(b)));
        $r.form("plain", || val(a.div_euclid(b)));
        $r.fam("rem_euclid", vec![int(&a), int(&b)]);
        $r.form("overflowing", || pairf(a.overflowing_rem_euclid(b)));
        $r.form("checked", || opt(a.checked_rem_euclid(b)));
        $r.form("wrapping", || val(a.wrapping_rem_euclid(b)));
        $r.form("strict", || val(a.strict_rem_euclid(b)));
        $r.form("plain", || val(a.rem_euclid(b)));
    }};
}
macro_rules! c03_roundings {
    ($r:expr, $a:expr, $b:expr) => {{
        let (a, b) = ($a, $b);
        $r.ev("div_floor", vec![int(&a), int(&b)], || val(a.div_floor(b)));
        $r.ev("div_ceil", vec![int(&a), int(&b)], || val(a.div_ceil(b)));
        $r.fam("next_multiple_of", vec![int(&a), int(&b)]);
        $r.form("plain", || val(a.next_multiple_of(b)));
        $r.form("checked", || opt(a.checked_next_multiple_of(b)));
    }};
}
macro_rules! c03_pair {
    ($U:ty, $I:ty, $ru:expr, $ri:expr, $a:expr, $b:expr, bnum) => {{
        let ua = <$U as Bn>::dec($a);
        let ub = <$U as Bn>::dec($b);
        let ia = <$I as Bn>::dec($a);
        let ib = <$I as Bn>::dec($b);
        c03_same!($ru, ua, ub, bnum);
        c03_same!($ri, ia, ib, bnum);
        c03_roundings!($ru, ua, ub);
        c03_roundings!($ri, ia, ib);
    }};
    ($U:ty, $I:ty, $ru:expr, $ri:expr, $a:expr, $b:expr, prim) => {{
        let ua = <$U as Bn>::dec($a);
        let ub = <$U as Bn>::dec($b);
        let ia = <$I as Bn>::dec($a);
        let ib = <$I as Bn>::dec($b);
        c03_same!($ru, ua, ub, prim);
        c03_same!($ri, ia, ib, prim);
        // stable primitives: unsigned div_ceil / next_multiple_of only
        $ru.ev("div_ceil", vec![int(&ua), int(&ub)], || val(ua.div_ceil(ub)));
        $ru.fam("next_multiple_of", vec![int(&ua), int(&ub)]);
        $ru.form("plain", || val(ua.next_multiple_of(ub)));
        $ru.form("checked", || opt(ua.checked_next_multiple_of(ub)));
    }};
}

// ----------------------------------------------------------------------------------------------
// C08

macro_rules! c08_pow_one {
    ($r:expr, $a:expr, $e:expr) => {{
        let (a, e): (_, u32) = ($a, $e);
        $r.sem = "C08";
        $r.fam("pow", vec![int(&a), nat(e as u128)]);
        $r.form("overflowing", || pairf(a.overflowing_pow(e)));
        $r.form("checked", || opt(a.checked_pow(e)));
        $r.form("wrapping", || val(a.wrapping_pow(e)));
        $r.form("saturating", || val(a.saturating_pow(e)));
        $r.form("strict", || val(a.strict_pow(e)));
        $r.form("op", || val(a.pow(e)));
    }};
}
macro_rules! c08_pow {
    ($U:ty, $I:ty, $ru:expr, $ri:expr, $a:expr, $e:expr, $prim:tt) => {{
        let ua = <$U as Bn>::dec($a);
        let ia = <$I as Bn>::dec($a);
        c08_pow_one!($ru, ua, $e);
        c08_pow_one!($ri, ia, $e);
    }};
}
macro_rules! c08_log_one {
    ($r:expr, $x:expr, $b:expr) => {{
        let (x, b) = ($x, $b);
        $r.sem = "C08";
        $r.fam("ilog", vec![int(&x), int(&b)]);
        $r.form("plain", || natv(x.ilog(b) as u128));
        $r.form("checked", || optnat(x.checked_ilog(b).map(|v| v as u128)));
    }};
}
macro_rules! c08_log {
    ($U:ty, $I:ty, $ru:expr, $ri:expr, $x:expr, $b:expr, $prim:tt) => {{
        let ux = <$U as Bn>::dec($x);
        let ub = <$U as Bn>::dec($b);
        let ix = <$I as Bn>::dec($x);
        let ib = <$I as Bn>::dec($b);
        c08_log_one!($ru, ux, ub);
        c08_log_one!($ri, ix, ib);
    }};
}
macro_rules! c08_log_fixed_one {
    ($r:expr, $x:expr) => {{
        let x = $x;
        $r.sem = "C08";
        $r.fam("ilog2", vec![int(&x)]);
        $r.form("plain", || natv(x.ilog2() as u128));
        $r.form("checked", || optnat(x.checked_ilog2().map(|v| v as u128)));
        $r.fam("ilog10", vec![int(&x)]);
        $r.form("plain", || natv(x.ilog10() as u128));
        $r.form("checked", || optnat(x.checked_ilog10().map(|v| v as u128)));
    }};
}
macro_rules! c08_log_fixed {
    ($U:ty, $I:ty, $ru:expr, $ri:expr, $x:expr, $prim:tt) => {{
        let ux = <$U as Bn>::dec($x);
        let ix = <$I as Bn>::dec($x);
        c08_log_fixed_one!($ru, ux);
        c08_log_fixed_one!($ri, ix);
    }};
}

// ----------------------------------------------------------------------------------------------
// C04 extras: shift operators with each primitive right-hand-side type, next_power_of_two

macro_rules! shift_forms {
    ($r:expr, $x:expr, $amt:expr, $op:tt, $meth:ident; $($t:ident),*) => {{
        let x = $x;
        let amt: i128 = $amt;
        $(
            if let Ok(v) = <$t>::try_from(amt) {
                $r.form(stringify!($t), || val(x $op v));
            }
        )*
        if let Ok(v) = u32::try_from(amt) {
            $r.form("inherent", || val(x.$meth(v)));
        }
    }};
}
macro_rules! c04_shift_one {
    ($r:expr, $x:expr, $amt:expr, bnum) => {{
        let x = $x;
        $r.sem = "C04";
        $r.fam("shl_ops", vec![int(&x), snat($amt)]);
        shift_forms!($r, x, $amt, <<, shl; u8, u16, u32, u64, u128, usize, i8, i16, i32, i64, i128, isize);
        $r.fam("shr_ops", vec![int(&x), snat($amt)]);
        shift_forms!($r, x, $amt, >>, shr; u8, u16, u32, u64, u128, usize, i8, i16, i32, i64, i128, isize);
    }};
    ($r:expr, $x:expr, $amt:expr, prim) => {{
        let x = $x;
        $r.sem = "C04";
        $r.fam("shl_ops", vec![int(&x), snat($amt)]);
        prim_shift_forms!($r, x, $amt, <<; u8, u16, u32, u64, u128, usize, i8, i16, i32, i64, i128, isize);
        $r.fam("shr_ops", vec![int(&x), snat($amt)]);
        prim_shift_forms!($r, x, $amt, >>; u8, u16, u32, u64, u128, usize, i8, i16, i32, i64, i128, isize);
    }};
}
macro_rules! prim_shift_forms {
    ($r:expr, $x:expr, $amt:expr, $op:tt; $($t:ident),*) => {{
        let x = $x;
        let amt: i128 = $amt;
        $(
            if let Ok(v) = <$t>::try_from(amt) {
                $r.form(stringify!($t), || val(x $op std::hint::black_box(v)));
            }
        )*
    }};
}
macro_rules! c04_shift {
    ($U:ty, $I:ty, $ru:expr, $ri:expr, $x:expr, $amt:expr, $prim:tt) => {{
        let ux = <$U as Bn>::dec($x);
        let ix = <$I as Bn>::dec($x);
        c04_shift_one!($ru, ux, $amt, $prim);
        c04_shift_one!($ri, ix, $amt, $prim);
    }};
}
macro_rules! c04_npot {
    ($U:ty, $ru:expr, $x:expr, bnum) => {{
        let ux = <$U as Bn>::dec($x);
        $ru.sem = "C04";
        $ru.fam("next_power_of_two", vec![int(&ux)]);
        $ru.form("plain", || val(ux.next_power_of_two()));
        $ru.form("checked", || opt(ux.checked_next_power_of_two()));
        $ru.form("wrapping", || val(ux.wrapping_next_power_of_two()));
    }};
    ($U:ty, $ru:expr, $x:expr, prim) => {{
        let ux = <$U as Bn>::dec($x);
        $ru.sem = "C04";
        $ru.fam("next_power_of_two", vec![int(&ux)]);
        $ru.form("plain", || val(ux.next_power_of_two()));
        $ru.form("checked", || opt(ux.checked_next_power_of_two()));
    }};
}

// ----------------------------------------------------------------------------------------------
// inputs

#[derive(Default)]
struct Inputs {
    vals: Vec<B>,
    pairs: Vec<(B, B)>,
    mul: Vec<(B, B, B)>,
    div: Vec<(B, B)>,
    pow: Vec<(B, u32)>,
    log: Vec<(B, B)>,
    logx: Vec<B>,
    shifts: Vec<(B, i128)>,
    npot: Vec<B>,
}

fn with_negs(v: &mut Vec<(B, B)>, a: B, b: B) {
    v.push((gen::negate(&a), b.clone()));
    v.push((a.clone(), gen::negate(&b)));
    v.push((gen::negate(&a), gen::negate(&b)));
    v.push((a, b));
}

fn mul_inputs(r: &mut Rng, n: usize, count: usize) -> Vec<(B, B, B)> {
    let w = 8 * n;
    let bnd = gen::boundary(n);
    let mut p: Vec<(B, B)> = Vec::new();
    let corners = [gen::zero(n), gen::small(n, 1), gen::ones(n), gen::smin(n), gen::smax(n), gen::small(n, 2)];
    for a in corners.iter() {
        for b in corners.iter() {
            p.push((a.clone(), b.clone()));
        }
    }
    // products at / just below / just above 2^W and 2^(W-1): (2^k + d1) * (2^(W-k) + d2)
    let ks: Vec<usize> = if count >= 500 { (1..w).collect() } else { (0..6).map(|_| 1 + r.below(w as u64 - 1) as usize).collect() };
    for k in ks {
        for top in [w, w - 1] {
            if k >= top {
                continue;
            }
            let a0 = gen::pow2(n, k);
            let b0 = gen::pow2(n, top - k);
            let d = r.below(3);
            let a = match d {
                0 => a0.clone(),
                1 => gen::sub1(&a0),
                _ => gen::add1(&a0),
            };
            let b = match r.below(3) {
                0 => b0.clone(),
                1 => gen::sub1(&b0),
                _ => gen::add1(&b0),
            };
            with_negs(&mut p, a, b);
        }
    }
    // a * (LIMIT div a) and a * (LIMIT div a + 1) for LIMIT in {2^W - 1, 2^(W-1) - 1, 2^(W-1)}
    let na = if count >= 500 { 40 } else { 4 };
    for _ in 0..na {
        let mut a = gen::short(r, n);
        if r.below(2) == 0 {
            a = gen::small(n, 2 + r.below(300));
        }
        if a.iter().all(|x| *x == 0) {
            continue;
        }
        let a = gen::fit(&gen::trim(a.iter().map(|x| *x).collect()), n);
        if a.iter().all(|x| *x == 0) || a[n - 1] & 0x80 != 0 {
            continue;
        }
        for lim in [gen::ones(n), gen::smax(n), gen::smin(n)] {
            let (q, _) = gen::udivrem(&lim, &gen::trim(a.clone()));
            let q = gen::fit(&q, n);
            with_negs(&mut p, a.clone(), q.clone());
            with_negs(&mut p, a.clone(), gen::add1(&q));
        }
    }
    // bit lengths adding up to W - 2 .. W + 1 with random mantissas, including both operands at exactly half the
    // width: the band where overflow estimates made from leading_zeros are off by one (unsigned and signed limits)
    for total in [w, w - 1] {
        for (a, b) in gen::bitlen_pairs(r, n, total, if count >= 500 { 40 } else { 12 }) {
            if r.below(2) == 0 {
                with_negs(&mut p, a, b);
            } else {
                p.push((a, b));
            }
        }
    }
    // only the top digit of one operand and a low digit of the other (overflow only through the index test)
    for g in [1usize, 2, 4, 8] {
        if g >= n {
            continue;
        }
        let nd = n / g;
        let i = r.below(nd as u64) as usize;
        let j = nd - i.min(nd);
        for jj in [j.saturating_sub(1), j.min(nd - 1)] {
            let mut a = gen::zero(n);
            let mut b = gen::zero(n);
            a[i * g] = 1 + r.below(255) as u8;
            b[(jj.min(nd - 1)) * g] = 1 + r.below(255) as u8;
            p.push((a, b));
        }
    }
    while p.len() < count {
        let a = gen::any(r, n, &bnd);
        let b = match r.below(4) {
            0 => gen::short(r, n),
            1 => gen::small(n, r.below(1000)),
            _ => gen::any(r, n, &bnd),
        };
        p.push((a, b));
    }
    let mut out: Vec<(B, B, B)> = p
        .into_iter()
        .map(|(a, b)| {
            let c = match r.below(4) {
                0 => gen::ones(n),
                1 => gen::zero(n),
                _ => gen::any(r, n, &bnd),
            };
            (a, b, c)
        })
        .collect();
    // MAX * 2^g: the high half is 2^g - 1 (its lowest digit all ones at digit size g) and the low half + carry wraps
    for g in [8usize, 16, 32, 64] {
        if g < 8 * n {
            let p = gen::pow2(n, g);
            for c in [gen::ones(n), p.clone(), gen::sub1(&p), gen::add1(&p)] {
                out.push((gen::ones(n), p.clone(), c.clone()));
                out.push((p.clone(), gen::ones(n), c.clone()));
                out.push((gen::sub1(&gen::ones(n)), p.clone(), c));
            }
        }
    }
    out
}

fn div_inputs(r: &mut Rng, n: usize, count: usize) -> Vec<(B, B)> {
    let bnd = gen::boundary(n);
    let mut p: Vec<(B, B)> = Vec::new();
    let corners = [gen::zero(n), gen::small(n, 1), gen::ones(n), gen::smin(n), gen::smax(n), gen::small(n, 2), gen::add1(&gen::smin(n))];
    for a in corners.iter() {
        for b in corners.iter() {
            p.push((a.clone(), b.clone()));
        }
    }
    // at 128 and 256 bits (two and four u64 digits; 4 to 32 digits of the narrower types): a bulk of divisions whose
    // operands consist of runs of ones at 32- and 64-bit granularity.  Estimate-and-correct division steps built
    // on half digits or on the top digits take their rare branches about once per thousand such operands.
    if n == 16 || n == 32 {
        let bulk = if count >= 1000 { 6000 } else { 1500 };
        for k in 0..bulk {
            let g = if k % 2 == 0 { 4 } else { 8 };
            let a = gen::runs(r, n, g);
            let dl = g * (1 + r.below((n / g) as u64) as usize);
            let b = gen::fit(&gen::runs(r, dl, g), n);
            p.push((a, b));
        }
    }
    let want = count + p.len().saturating_sub(50);
    while p.len() < want {
        match r.below(10) {
            // extreme-digit dividend, extreme-digit divisor shorter by 0..n-1 bytes
            0..=3 => {
                let a = gen::extreme(r, n);
                let m = 1 + r.below(n as u64) as usize;
                let b = gen::fit(&gen::extreme(r, m), n);
                with_negs(&mut p, a, b);
            }
            // exact multiples and their neighbours
            4..=5 => {
                let m = 1 + r.below(n as u64) as usize;
                let d = gen::trim(gen::extreme(r, m));
                if d.is_empty() {
                    continue;
                }
                let ql = n - d.len();
                if ql == 0 {
                    continue;
                }
                let q = gen::extreme(r, ql);
                let prod = gen::fit(&gen::umul(&q, &d), n);
                let d = gen::fit(&d, n);
                p.push((prod.clone(), d.clone()));
                p.push((gen::add1(&prod), d.clone()));
                p.push((gen::sub1(&prod), d.clone()));
                p.push((gen::negate(&prod), d.clone()));
                p.push((prod, gen::negate(&d)));
            }
            // quotient-digit estimation stress: equal leading digits of remainder and divisor
            6 => {
                let g = *r.pick(&[1usize, 2, 4, 8]);
                if 2 * g >= n {
                    continue;
                }
                let dl = g * (2 + r.below(((n / g) as u64).saturating_sub(2).max(1)) as usize).min(n / g - 1);
                if dl < 2 * g || dl >= n {
                    continue;
                }
                let mut d = gen::extreme(r, dl);
                d[dl - 1] |= 0x80; // already normalised top bit in many draws
                let mut a = gen::extreme(r, n);
                // copy the divisor's top digit into the dividend one digit higher
                for k in 0..g {
                    if dl + k < n {
                        a[dl + k] = d[dl - g + k];
                    }
                }
                for k in (dl + g)..n {
                    a[k] = 0;
                }
                p.push((a, gen::fit(&d, n)));
            }
            7 => {
                if r.below(2) == 0 {
                    let a = gen::any(r, n, &bnd);
                    p.push((a, gen::small(n, 1 + r.below(300))));
                } else {
                    // exact multiples q * d (and q * d +- 1) of a divisor with exactly two or three digits at a
                    // granularity, random mantissas: the quotient-digit corrections compare against the top two
                    // divisor digits, and an exact multiple makes those comparisons ties
                    let g = *r.pick(&[1usize, 2, 4, 8]);
                    let dl = g * (2 + r.below(2) as usize);
                    if dl < n {
                        let mut d = gen::random(r, dl);
                        if r.below(2) == 0 {
                            d = gen::extreme(r, dl);
                        }
                        d[dl - 1] |= 1; // top digit non-zero
                        let d = gen::trim(d);
                        let ql = n - d.len();
                        if ql > 0 && !d.is_empty() {
                            let q = if r.below(2) == 0 { gen::random(r, ql) } else { gen::extreme(r, ql) };
                            let prod = gen::fit(&gen::umul(&gen::trim(q), &d), n);
                            let d = gen::fit(&d, n);
                            p.push((prod.clone(), d.clone()));
                            p.push((gen::add1(&prod), d.clone()));
                            p.push((gen::sub1(&prod), d.clone()));
                        }
                    }
                }
            }
            _ => {
                let a = gen::any(r, n, &bnd);
                let b = gen::any(r, n, &bnd);
                p.push((a, b));
            }
        }
    }
    p
}

fn pow_inputs(r: &mut Rng, n: usize, count: usize) -> Vec<(B, u32)> {
    let w = (8 * n) as u32;
    let mut v: Vec<(B, u32)> = Vec::new();
    let bases = [
        gen::zero(n),
        gen::small(n, 1),
        gen::small(n, 2),
        gen::small(n, 3),
        gen::small(n, 10),
        gen::ones(n),
        gen::negate(&gen::small(n, 2)),
        gen::negate(&gen::small(n, 3)),
        gen::smin(n),
        gen::smax(n),
    ];
    let exps = [0u32, 1, 2, 3, w - 1, w, w + 1];
    for b in bases.iter() {
        for e in exps.iter() {
            v.push((b.clone(), *e));
        }
    }
    // powers of two: (+-2^j)^e with j*e around W-1 and W
    let js: Vec<u32> = if count >= 400 { (1..w.min(70)).collect() } else { (0..5).map(|_| 1 + r.below(w.min(70) as u64 - 1) as u32).collect() };
    for j in js {
        for target in [w - 1, w] {
            let e0 = target / j;
            for e in [e0.saturating_sub(1), e0, e0 + 1] {
                if (j as u64) * (e as u64) <= (w as u64) + (j as u64) {
                    let b = gen::pow2(n, j as usize);
                    v.push((b.clone(), e));
                    v.push((gen::negate(&b), e));
                }
            }
        }
    }
    // power-of-two bases with exponents where (log2 base) * exponent leaves the u32 range
    for j in [1u32, 2, 3, 4, 8, 16, 32, w / 2, w - 1] {
        if j == 0 || j >= w {
            continue;
        }
        let q = ((1u64 << 32) / j as u64) as u32;
        let cands = [q, q.wrapping_add(1), q.wrapping_sub(1), 1u32 << 31, u32::MAX, (1u32 << 31) + 1];
        let take = if count >= 400 { cands.len() } else { 2 };
        for _ in 0..take {
            let e = *r.pick(&cands);
            let b = gen::pow2(n, j as usize);
            v.push((b.clone(), e));
            if r.below(2) == 0 {
                v.push((gen::negate(&b), e));
            }
        }
    }
    // exponents at the order of the unit group mod 2^W (2^(W-2)) and around it, odd bases: narrow types only
    if w <= 32 {
        let lam: u64 = 1u64 << (w - 2);
        for e in [lam, lam * 2, lam * 3, lam + 1, lam - 1, lam * 4] {
            if e <= u32::MAX as u64 {
                for b in [gen::small(n, 3), gen::small(n, 5), gen::negate(&gen::small(n, 3)), gen::ones(n), gen::add1(&gen::pow2(n, 4 * n))] {
                    v.push((b, e as u32));
                }
            }
        }
    }
    // half-width bases squared / cubed
    let h = gen::pow2(n, (4 * n) as usize);
    for b in [h.clone(), gen::sub1(&h), gen::add1(&h), gen::negate(&h), gen::add1(&gen::negate(&h))] {
        v.push((b.clone(), 2));
        v.push((b, 3));
    }
    // huge exponents (parity matters for the sign; wrapped value by modular arithmetic)
    let huge = [31u32, 32, 33, 63, 64, 65, 1 << 16, (1 << 31) - 1, 1 << 31, u32::MAX - 1, u32::MAX];
    let nh = if n > 32 { 2 } else if count >= 400 { huge.len() } else { 4 };
    for _ in 0..nh {
        let e = *r.pick(&huge);
        let b = match r.below(5) {
            0 => gen::small(n, 3),
            1 => gen::ones(n),
            2 => gen::negate(&gen::small(n, 3)),
            3 => gen::small(n, 2),
            _ => gen::short(r, n),
        };
        v.push((b, e));
    }
    // bases odd * 2^t with t * e just past 2^32 (and past 2^33): shift amounts formed as t * e overflow a u32 there,
    // while the true wrapped power is 0 and the true overflow flag is set
    for t in [1u64, 2, 3, 4, 6, 8, 12, 16] {
        if count < 400 && r.below(3) != 0 {
            continue;
        }
        if t + 2 >= w as u64 {
            continue;
        }
        let odd = 3 + 2 * r.below(6);
        let base = gen::fit(&gen::trim(((odd as u128) << t).to_le_bytes()[..n.min(16)].to_vec()), n);
        for top in [1u64 << 32, 1u64 << 33] {
            for d in [0u64, r.below(w as u64), w as u64 - 1, w as u64] {
                let te = top + d;
                let e = te / t + if te % t == 0 { 0 } else { 1 }; // least e with t * e >= top + d
                if e <= u32::MAX as u64 {
                    v.push((base.clone(), e as u32));
                    if r.below(3) == 0 {
                        v.push((gen::negate(&base), e as u32));
                    }
                }
            }
        }
    }
    let bnd = gen::boundary(n);
    while v.len() < count {
        let b = match r.below(3) {
            0 => gen::small(n, r.below(40)),
            1 => gen::negate(&gen::small(n, r.below(40))),
            _ => {
                let m = n.min(1 + (r.below(3) as usize));
                gen::fit(&gen::short(r, m), n)
            }
        };
        let e = r.below(2 * w as u64 / 3 + 4) as u32;
        v.push((b, e));
    }
    let _ = bnd;
    v
}

fn log_inputs(r: &mut Rng, n: usize, count: usize) -> (Vec<(B, B)>, Vec<B>) {
    let mut v: Vec<(B, B)> = Vec::new();
    let mut xs: Vec<B> = Vec::new();
    let h = gen::pow2(n, 4 * n);
    let mut bases = vec![gen::small(n, 2), gen::small(n, 3), gen::small(n, 10), gen::small(n, 7), gen::sub1(&h), gen::add1(&h), gen::smax(n), gen::ones(n),
        gen::small(n, 4), gen::small(n, 16), gen::pow2(n, 2 * n)];
    bases.push(gen::small(n, 2 + r.below(250)));
    let bad = [gen::zero(n), gen::small(n, 1), gen::negate(&gen::small(n, 2)), gen::smin(n)];
    for b in bases.iter() {
        // x in {b^k - 1, b^k, b^k + 1}
        let tb = gen::trim(b.clone());
        let mut p = gen::small(n, 1);
        let mut k = 0;
        let step = if count >= 400 { 1 } else { 1 + r.below(4) as usize };
        loop {
            if k % step == 0 || k < 3 {
                v.push((p.clone(), b.clone()));
                v.push((gen::sub1(&p), b.clone()));
                v.push((gen::add1(&p), b.clone()));
            }
            let q = gen::umul(&p, &tb);
            if q[n..].iter().any(|x| *x != 0) || tb.len() == 0 {
                break;
            }
            p = q[..n].to_vec();
            k += 1;
            if k > 8 * n {
                break;
            }
        }
        v.push((gen::ones(n), b.clone()));
        v.push((gen::smax(n), b.clone()));
        v.push((gen::smin(n), b.clone()));
    }
    for b in bad.iter() {
        for x in [gen::small(n, 5), gen::zero(n), gen::ones(n), gen::smax(n)] {
            v.push((x, b.clone()));
        }
    }
    // ilog2 / ilog10 arguments
    for k in 0..(8 * n) {
        if count >= 400 || k % 7 == (r.0 % 7) as usize || k < 3 || k + 2 >= 8 * n {
            let p = gen::pow2(n, k);
            xs.push(p.clone());
            xs.push(gen::sub1(&p));
            xs.push(gen::add1(&p));
        }
    }
    let ten = vec![10u8];
    let mut p = gen::small(n, 1);
    loop {
        xs.push(p.clone());
        xs.push(gen::sub1(&p));
        xs.push(gen::add1(&p));
        let q = gen::umul(&p, &ten);
        if q[n..].iter().any(|x| *x != 0) {
            break;
        }
        p = q[..n].to_vec();
    }
    xs.push(gen::zero(n));
    xs.push(gen::ones(n));
    xs.push(gen::smin(n));
    xs.push(gen::smax(n));
    (v, xs)
}

fn shift_inputs(r: &mut Rng, n: usize, count: usize) -> Vec<(B, i128)> {
    let w = (8 * n) as i128;
    let bnd = gen::boundary(n);
    let mut amts: Vec<i128> = vec![0, 1, 7, 8, 9, w - 1, w, w + 1, 2 * w - 1, 2 * w, -1, -8, -w, 255, 256, 65535, 65536, 127, 128, -128, -129,
        i32::MAX as i128, i32::MIN as i128, u32::MAX as i128, u32::MAX as i128 + 1, u32::MAX as i128 + 1 + 3, i64::MAX as i128, i64::MIN as i128, u64::MAX as i128, i128::MAX, i128::MIN,
        (1i128 << 32) + w - 1, (1i128 << 64) + 1, w / 2, 31, 32, 33, 63, 64, 65];
    let mut v = Vec::new();
    let xs = [gen::ones(n), gen::small(n, 1), gen::smin(n), gen::smax(n)];
    for a in amts.iter() {
        let x = if r.below(3) == 0 { gen::any(r, n, &bnd) } else { r.pick(&xs).clone() };
        v.push((x, *a));
    }
    while v.len() < count {
        let x = gen::any(r, n, &bnd);
        let a = match r.below(4) {
            0 => r.below(2 * w as u64 + 2) as i128,
            1 => -(r.below(w as u64 + 2) as i128),
            2 => (r.below(w as u64) as i128) + ((r.below(4) as i128) << 32),
            _ => r.below(w as u64) as i128,
        };
        v.push((x, a));
    }
    v
}

fn npot_inputs(r: &mut Rng, n: usize, count: usize) -> Vec<B> {
    let mut v = vec![gen::zero(n), gen::small(n, 1), gen::small(n, 2), gen::small(n, 3), gen::ones(n), gen::smin(n), gen::add1(&gen::smin(n)), gen::sub1(&gen::smin(n)), gen::smax(n)];
    for k in 0..(8 * n) {
        if count >= 300 || r.below(6) == 0 || k % 8 == 7 {
            let p = gen::pow2(n, k);
            v.push(p.clone());
            v.push(gen::sub1(&p));
            v.push(gen::add1(&p));
        }
    }
    let bnd = gen::boundary(n);
    while v.len() < count {
        v.push(gen::any(r, n, &bnd));
    }
    v
}

/// a handful of operands for the 2080- and 8192-bit types: dense bytes near 0xff, MAX, powers of ten
fn giant_inputs(prop: &str, seed: u64, w: u32, thorough: bool) -> Inputs {
    let n = (w / 8) as usize;
    let mut r = Rng::new(seed ^ ((w as u64) << 32) ^ 0x61a47);
    let mut i = Inputs::default();
    let k = if thorough { 12 } else { 3 };
    let dense = |r: &mut Rng| -> B { (0..n).map(|_| 0xf0 | (r.next() & 0x0f) as u8).collect() };
    match prop {
        "C01" | "C04" => {
            i.pairs = vec![(gen::ones(n), gen::small(n, 1)), (gen::smax(n), gen::smax(n)), (gen::smin(n), gen::ones(n))];
            for _ in 0..k {
                i.pairs.push((gen::extreme(&mut r, n), gen::extreme(&mut r, n)));
            }
            i.vals = vec![gen::smin(n), gen::ones(n), gen::random(&mut r, n)];
        }
        "C02" => {
            i.mul = vec![(gen::ones(n), gen::ones(n), gen::ones(n)), (gen::smin(n), gen::ones(n), gen::zero(n))];
            for _ in 0..k {
                i.mul.push((dense(&mut r), dense(&mut r), gen::random(&mut r, n)));
                let h = gen::fit(&gen::random(&mut r, n / 2), n);
                i.mul.push((h.clone(), gen::fit(&dense(&mut r)[..n / 2].to_vec(), n), gen::ones(n)));
            }
        }
        "C03" => {
            i.div = vec![(gen::ones(n), gen::small(n, 3)), (gen::smin(n), gen::ones(n))];
            for _ in 0..k {
                let m = n / 2 + r.below((n / 2) as u64) as usize;
                i.div.push((gen::extreme(&mut r, n), gen::fit(&gen::extreme(&mut r, m), n)));
                i.div.push((dense(&mut r), gen::fit(&dense(&mut r)[..m].to_vec(), n)));
            }
        }
        "C08" => {
            // ilog10 at and next to powers of ten over the whole width
            let ten = vec![10u8];
            let mut p = gen::small(n, 1);
            let mut kk = 0u32;
            // (every power at 2080 bits; at 8192 bits the logarithms of 1024-digit values cost ~0.5 s per value in a
            // debug build, so a rotating 1/16 (thorough) or 1/61 (quick) of the 2466 powers)
            let step = if w <= 2080 { 1 } else if thorough { 16 } else { 61 };
            let off = (seed % step as u64) as u32;
            loop {
                if kk % step == off || kk < 2 {
                    i.logx.push(p.clone());
                    i.logx.push(gen::sub1(&p));
                }
                let q = gen::umul(&p, &ten);
                if q[n..].iter().any(|x| *x != 0) || q[n - 1] & 0x80 != 0 {
                    break;
                }
                p = q[..n].to_vec();
                kk += 1;
            }
            i.logx.push(gen::ones(n));
            i.logx.push(gen::smax(n));
            i.pow = vec![(gen::small(n, 3), w / 2), (gen::small(n, 2), w - 1), (gen::small(n, 2), w), (gen::negate(&gen::small(n, 2)), w - 1), (gen::small(n, 10), 600), (gen::small(n, 7), u32::MAX)];
            i.log = vec![(gen::ones(n), gen::small(n, 3)), (gen::smax(n), gen::small(n, 7))];
        }
        _ => {}
    }
    i
}

fn inputs(prop: &str, seed: u64, w: u32, thorough: bool) -> Inputs {
    if w > 1024 {
        return giant_inputs(prop, seed, w, thorough);
    }
    let n = (w / 8) as usize;
    let mut r = Rng::new(seed ^ ((w as u64) << 32) ^ (prop.as_bytes()[2] as u64 * 131 + prop.as_bytes()[1] as u64));
    let mut i = Inputs::default();
    if thorough && w == 8 {
        // thorough tier: the 8-bit types completely -- every operand pair of every family
        let all: Vec<B> = (0..=255u8).map(|v| vec![v]).collect();
        let all_pairs: Vec<(B, B)> = all.iter().flat_map(|a| all.iter().map(move |b| (a.clone(), b.clone()))).collect();
        match prop {
            "C01" => {
                i.vals = all.clone();
                i.pairs = all_pairs;
            }
            "C02" => {
                i.mul = all_pairs.into_iter().map(|(a, b)| { let c = vec![a[0].wrapping_mul(7) ^ b[0].wrapping_mul(13)]; (a, b, c) }).collect();
            }
            "C03" => {
                i.div = all_pairs;
            }
            "C08" => {
                i.pow = all.iter().flat_map(|a| (0..=10u32).chain([15, 16, 17, 31, 32, 33, 255, 256, u32::MAX]).map(move |e| (a.clone(), e))).collect();
                i.log = all_pairs;
                i.logx = all.clone();
            }
            "C04" => {
                i.vals = all.clone();
                i.pairs = all_pairs.iter().step_by(7).cloned().collect();
                i.mul = all_pairs.iter().step_by(5).map(|(a, b)| (a.clone(), b.clone(), vec![a[0] ^ b[0]])).collect();
                i.div = all_pairs.iter().step_by(3).cloned().collect();
                i.pow = all.iter().flat_map(|a| [0u32, 1, 2, 3, 7, 8, 9].into_iter().map(move |e| (a.clone(), e))).collect();
                i.log = all_pairs.iter().step_by(11).cloned().collect();
                i.logx = all.clone();
                i.shifts = all.iter().flat_map(|a| (-2i128..=18).map(move |k| (a.clone(), k))).collect();
                i.npot = all.clone();
            }
            _ => panic!("unknown property"),
        }
        return i;
    }
    if thorough && w == 16 && prop == "C01" {
        // every 16-bit value for the unary families (neg, abs, ...) on top of the sampled pairs
        i.vals = (0..=65535u32).map(|v| vec![v as u8, (v >> 8) as u8]).collect();
        i.pairs = gen::pairs(&mut r, n, 1500);
        return i;
    }
    // very wide types get fewer quadratic-cost events: TLC's exact products cost ~n^2
    let scale = |q: usize, t: usize| -> usize {
        let base = if thorough { t } else { q };
        if n >= 128 {
            base / 4
        } else if n >= 64 {
            base / 2
        } else {
            base
        }
    };
    match prop {
        "C01" => {
            i.vals = gen::values(&mut r, n, if thorough { 400 } else { 40 });
            i.pairs = gen::pairs(&mut r, n, if thorough { 1500 } else { 120 });
        }
        "C02" => {
            i.mul = mul_inputs(&mut r, n, scale(260, 1600));
        }
        "C03" => {
            i.div = div_inputs(&mut r, n, scale(260, 1600));
        }
        "C08" => {
            i.pow = pow_inputs(&mut r, n, scale(110, 600));
            let (l, x) = log_inputs(&mut r, n, scale(100, 600));
            i.log = l;
            i.logx = x;
        }
        "C04" => {
            i.vals = gen::values(&mut r, n, if thorough { 60 } else { 12 });
            i.pairs = gen::pairs(&mut r, n, if thorough { 200 } else { 30 });
            i.mul = mul_inputs(&mut r, n, scale(45, 300));
            i.div = div_inputs(&mut r, n, scale(55, 300));
            i.pow = pow_inputs(&mut r, n, scale(90, 200));
            let (l, x) = log_inputs(&mut r, n, 40);
            // the panic side completely (zero / negative arguments, bases below 2), a third of the rest
            let lim = gen::small(n, 2);
            i.log = l
                .into_iter()
                .enumerate()
                .filter(|(k, (x, b))| {
                    let xz = x.iter().all(|v| *v == 0) || x[n - 1] & 0x80 != 0;
                    let bb = b[n - 1] & 0x80 != 0 || gen::ucmp(b, &lim) == std::cmp::Ordering::Less;
                    xz || bb || k % 3 == 0
                })
                .map(|(_, p)| p)
                .collect();
            i.logx = x.into_iter().step_by(5).collect();
            i.shifts = shift_inputs(&mut r, n, if thorough { 200 } else { 50 });
            i.npot = npot_inputs(&mut r, n, if thorough { 300 } else { 30 });
        }
        _ => panic!("unknown property"),
    }
    i
}

// ----------------------------------------------------------------------------------------------

macro_rules! run_all {
    (@go $prim:tt, $imp:literal, $w:literal; $(($U:ty, $I:ty)),+) => {
        CTX.with(|c| {
            let mut c = c.borrow_mut();
            let c = c.as_mut().unwrap();
            if c.cli.only_width.map_or(true, |x| x == $w) {
                let inp = inputs(&c.cli.prop, c.cli.seed, $w, c.cli.tier == "thorough");
                let mut us: Vec<(&'static str, Rec)> = Vec::new();
                let mut is: Vec<(&'static str, Rec)> = Vec::new();
                $(
                    {
                        let mut ru = Rec::new();
                        let mut ri = Rec::new();
                        for (a, b) in inp.pairs.iter() {
                            c01_pair!($U, $I, ru, ri, a, b, $prim);
                        }
                        for a in inp.vals.iter() {
                            c01_unary!($U, $I, ru, ri, a, $prim);
                        }
                        for (a, b, cc) in inp.mul.iter() {
                            c02_triple!($U, $I, ru, ri, a, b, cc, $prim);
                        }
                        for (a, b) in inp.div.iter() {
                            c03_pair!($U, $I, ru, ri, a, b, $prim);
                        }
                        for (a, e) in inp.pow.iter() {
                            c08_pow!($U, $I, ru, ri, a, *e, $prim);
                        }
                        for (x, b) in inp.log.iter() {
                            c08_log!($U, $I, ru, ri, x, b, $prim);
                        }
                        for x in inp.logx.iter() {
                            c08_log_fixed!($U, $I, ru, ri, x, $prim);
                        }
                        for (x, a) in inp.shifts.iter() {
                            c04_shift!($U, $I, ru, ri, x, *a, $prim);
                        }
                        for x in inp.npot.iter() {
                            c04_npot!($U, ru, x, $prim);
                        }
                        us.push((<$U as Bn>::DT, ru));
                        is.push((<$I as Bn>::DT, ri));
                    }
                )+
                c.sink.merge($w, false, $imp, us);
                c.sink.merge($w, true, $imp, is);
            }
        });
    };
}
macro_rules! run_bnum {
    ($w:literal; $(($U:ty, $I:ty)),+) => { run_all!(@go bnum, "bnum", $w; $(($U, $I)),+); };
}
macro_rules! run_prim {
    ($w:literal; $(($U:ty, $I:ty)),+) => { run_all!(@go prim, "prim", $w; $(($U, $I)),+); };
}

struct Ctx {
    cli: Cli,
    sink: Sink,
}
thread_local! {
    static CTX: std::cell::RefCell<Option<Ctx>> = std::cell::RefCell::new(None);
}

fn main() {
    install_hook();
    let cli = parse_cli();
    let prop = cli.prop.clone();
    let sink = Sink::new(&cli.out, &prop);
    let prims = cli.extra.iter().any(|x| x == "--prims");
    CTX.with(|c| *c.borrow_mut() = Some(Ctx { cli, sink }));
    if prims {
        for_prims!(run_prim);
    } else {
        the_matrix!(run_bnum);
        the_giants!(run_bnum);
    }
    let ctx = CTX.with(|c| c.borrow_mut().take().unwrap());
    let (n, splits) = ctx.sink.finish();
    eprintln!("recorded {} events, {} digit-type splits, mode {}", n, splits, MODE);
}
