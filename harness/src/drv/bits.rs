// body of the `bits` recorder, included by src/bin/bits.rs (the matrix of DESIGN.md 5.1) and by src/bin/bits_s<k>.rs
// (chunk k of the width sweep); `the_matrix!` and `the_giants!` are defined by the including file.

use bnum_verif_harness::gen::{self, Rng, B};
use bnum_verif_harness::*;
use std::hash::{Hash, Hasher};

fn hash_of<T: Hash>(x: &T) -> u64 {
    let mut h = std::collections::hash_map::DefaultHasher::new();
    x.hash(&mut h);
    h.finish()
}

// ----------------------------------------------------------------------------------------------
// C05

macro_rules! c05_one {
    ($r:expr, $x:expr, $s:expr, $prim:tt) => {{
        let x = $x;
        let s: u32 = $s;
        $r.sem = "C05";
        $r.fam("shl", vec![int(&x), nat(s as u128)]);
        $r.form("checked", || opt(x.checked_shl(s)));
        $r.form("overflowing", || pairf(x.overflowing_shl(s)));
        $r.form("wrapping", || val(x.wrapping_shl(s)));
        $r.form("strict", || val(x.strict_shl(s)));
        $r.form("unbounded", || val(x.unbounded_shl(s)));
        $r.form("op", || val(x << std::hint::black_box(s)));
        c05_inherent!($r, x, s, shl, $prim);
        if s < wof(&x) {
            $r.form_unsafe("unchecked", || val(unsafe { x.unchecked_shl(s) }));
        }
        $r.fam("shr", vec![int(&x), nat(s as u128)]);
        $r.form("checked", || opt(x.checked_shr(s)));
        $r.form("overflowing", || pairf(x.overflowing_shr(s)));
        $r.form("wrapping", || val(x.wrapping_shr(s)));
        $r.form("strict", || val(x.strict_shr(s)));
        $r.form("unbounded", || val(x.unbounded_shr(s)));
        $r.form("op", || val(x >> std::hint::black_box(s)));
        c05_inherent!($r, x, s, shr, $prim);
        if s < wof(&x) {
            $r.form_unsafe("unchecked", || val(unsafe { x.unchecked_shr(s) }));
        }
        $r.ev("rotate_left", vec![int(&x), nat(s as u128)], || val(x.rotate_left(s)));
        $r.ev("rotate_right", vec![int(&x), nat(s as u128)], || val(x.rotate_right(s)));
    }};
}
macro_rules! c05_inherent {
    ($r:expr, $x:expr, $s:expr, $m:ident, bnum) => {
        $r.form("inherent", || val($x.$m($s)));
    };
    ($r:expr, $x:expr, $s:expr, $m:ident, prim) => {};
}
macro_rules! c05_pair {
    ($U:ty, $I:ty, $ru:expr, $ri:expr, $x:expr, $s:expr, $prim:tt) => {{
        let ux = <$U as Bn>::dec($x);
        let ix = <$I as Bn>::dec($x);
        c05_one!($ru, ux, $s, $prim);
        c05_one!($ri, ix, $s, $prim);
    }};
}

// ----------------------------------------------------------------------------------------------
// C06

macro_rules! c06_logic_one {
    ($r:expr, $a:expr, $b:expr, bnum) => {{
        let (a, b) = ($a, $b);
        $r.sem = "C06";
        $r.fam("bitand", vec![int(&a), int(&b)]);
        $r.form("op", || val(a & b));
        $r.form("inherent", || val(a.bitand(b)));
        $r.fam("bitor", vec![int(&a), int(&b)]);
        $r.form("op", || val(a | b));
        $r.form("inherent", || val(a.bitor(b)));
        $r.fam("bitxor", vec![int(&a), int(&b)]);
        $r.form("op", || val(a ^ b));
        $r.form("inherent", || val(a.bitxor(b)));
    }};
    ($r:expr, $a:expr, $b:expr, prim) => {{
        let (a, b) = ($a, $b);
        $r.sem = "C06";
        $r.fam("bitand", vec![int(&a), int(&b)]);
        $r.form("op", || val(a & b));
        $r.fam("bitor", vec![int(&a), int(&b)]);
        $r.form("op", || val(a | b));
        $r.fam("bitxor", vec![int(&a), int(&b)]);
        $r.form("op", || val(a ^ b));
    }};
}
macro_rules! c06_unary_one {
    ($r:expr, $a:expr, $prim:tt) => {{
        let a = $a;
        $r.sem = "C06";
        $r.fam("not", vec![int(&a)]);
        $r.form("op", || val(!a));
        c06_not_inherent!($r, a, $prim);
        $r.fam("counts", vec![int(&a)]);
        $r.form("count_ones", || natv(a.count_ones() as u128));
        $r.form("count_zeros", || natv(a.count_zeros() as u128));
        $r.form("leading_zeros", || natv(a.leading_zeros() as u128));
        $r.form("trailing_zeros", || natv(a.trailing_zeros() as u128));
        $r.form("leading_ones", || natv(a.leading_ones() as u128));
        $r.form("trailing_ones", || natv(a.trailing_ones() as u128));
        c06_bits!($r, a, $prim);
        $r.ev("swap_bytes", vec![int(&a)], || val(a.swap_bytes()));
        $r.ev("reverse_bits", vec![int(&a)], || val(a.reverse_bits()));
        $r.ev("swap_bytes_twice", vec![int(&a)], || val(a.swap_bytes().swap_bytes()));
        $r.ev("reverse_bits_twice", vec![int(&a)], || val(a.reverse_bits().reverse_bits()));
        $r.ev("is_power_of_two", vec![int(&a)], || boolv(a.is_power_of_two()));
    }};
}
macro_rules! c06_not_inherent {
    ($r:expr, $a:expr, bnum) => {
        $r.form("inherent", || val($a.not()));
        $r.form("ref", || val(!&$a));
    };
    ($r:expr, $a:expr, prim) => {};
}
macro_rules! c06_bits {
    ($r:expr, $a:expr, bnum) => {
        $r.form("bits", || natv($a.bits() as u128));
        $r.fam("zero_one", vec![int(&$a)]);
        $r.form("is_zero", || boolv($a.is_zero()));
        $r.form("is_one", || boolv($a.is_one()));
    };
    ($r:expr, $a:expr, prim) => {};
}
macro_rules! c06_pair {
    ($U:ty, $I:ty, $ru:expr, $ri:expr, $a:expr, $b:expr, $prim:tt) => {{
        let ua = <$U as Bn>::dec($a);
        let ub = <$U as Bn>::dec($b);
        let ia = <$I as Bn>::dec($a);
        let ib = <$I as Bn>::dec($b);
        c06_logic_one!($ru, ua, ub, $prim);
        c06_logic_one!($ri, ia, ib, $prim);
    }};
}
macro_rules! c06_unary {
    ($U:ty, $I:ty, $ru:expr, $ri:expr, $a:expr, bnum) => {{
        let ua = <$U as Bn>::dec($a);
        let ia = <$I as Bn>::dec($a);
        c06_unary_one!($ru, ua, bnum);
        c06_unary_one!($ri, ia, bnum);
        $ru.fam("next_power_of_two", vec![int(&ua)]);
        $ru.form("checked", || opt(ua.checked_next_power_of_two()));
        $ru.form("wrapping", || val(ua.wrapping_next_power_of_two()));
    }};
    ($U:ty, $I:ty, $ru:expr, $ri:expr, $a:expr, prim) => {{
        let ua = <$U as Bn>::dec($a);
        let ia = <$I as Bn>::dec($a);
        c06_unary_one!($ru, ua, prim);
        // signed primitives have no is_power_of_two; the counts and reversals are calibrated
        $ri.sem = "C06";
        $ri.fam("not", vec![int(&ia)]);
        $ri.form("op", || val(!ia));
        $ri.fam("counts", vec![int(&ia)]);
        $ri.form("count_ones", || natv(ia.count_ones() as u128));
        $ri.form("count_zeros", || natv(ia.count_zeros() as u128));
        $ri.form("leading_zeros", || natv(ia.leading_zeros() as u128));
        $ri.form("trailing_zeros", || natv(ia.trailing_zeros() as u128));
        $ri.form("leading_ones", || natv(ia.leading_ones() as u128));
        $ri.form("trailing_ones", || natv(ia.trailing_ones() as u128));
        $ri.ev("swap_bytes", vec![int(&ia)], || val(ia.swap_bytes()));
        $ri.ev("reverse_bits", vec![int(&ia)], || val(ia.reverse_bits()));
        $ru.fam("next_power_of_two", vec![int(&ua)]);
        $ru.form("checked", || opt(ua.checked_next_power_of_two()));
    }};
}
macro_rules! c06_bit {
    ($U:ty, $I:ty, $ru:expr, $ri:expr, $a:expr, $i:expr, bnum) => {{
        let ua = <$U as Bn>::dec($a);
        let ia = <$I as Bn>::dec($a);
        let i: u32 = $i;
        $ru.sem = "C06";
        $ri.sem = "C06";
        $ru.ev("bit", vec![int(&ua), nat(i as u128)], || boolv(ua.bit(i)));
        $ri.ev("bit", vec![int(&ia), nat(i as u128)], || boolv(ia.bit(i)));
        for v in [false, true] {
            $ru.ev("set_bit", vec![int(&ua), nat(i as u128), boolean(v)], || {
                let mut x = ua;
                x.set_bit(i, v);
                val(x)
            });
        }
        $ru.ev("power_of_two", vec![nat(i as u128)], || val(<$U>::power_of_two(i)));
    }};
    ($U:ty, $I:ty, $ru:expr, $ri:expr, $a:expr, $i:expr, prim) => {};
}

// ----------------------------------------------------------------------------------------------
// C07

macro_rules! c07_pair_one {
    ($r:expr, $a:expr, $b:expr, $prim:tt) => {{
        let (a, b) = ($a, $b);
        $r.sem = "C07";
        $r.fam("cmp_all", vec![int(&a), int(&b)]);
        $r.form("op_eq", || boolv(a == b));
        $r.form("op_ne", || boolv(a != b));
        $r.form("op_lt", || boolv(a < b));
        $r.form("op_le", || boolv(a <= b));
        $r.form("op_gt", || boolv(a > b));
        $r.form("op_ge", || boolv(a >= b));
        $r.form("ord_cmp", || ordv(Ord::cmp(&a, &b)));
        $r.form("partial_cmp", || match PartialOrd::partial_cmp(&a, &b) {
            Some(o) => ordv(o),
            None => Out::None_,
        });
        $r.form("ord_max", || val(Ord::max(a, b)));
        $r.form("ord_min", || val(Ord::min(a, b)));
        $r.form("trait_eq", || boolv(PartialEq::eq(&a, &b)));
        $r.form("trait_ne", || boolv(PartialEq::ne(&a, &b)));
        $r.form("trait_lt", || boolv(PartialOrd::lt(&a, &b)));
        $r.form("trait_le", || boolv(PartialOrd::le(&a, &b)));
        $r.form("trait_gt", || boolv(PartialOrd::gt(&a, &b)));
        $r.form("trait_ge", || boolv(PartialOrd::ge(&a, &b)));
        c07_inherent!($r, a, b, $prim);
        $r.form("hash_eq", || boolv(hash_of(&a) == hash_of(&b)));
    }};
}
macro_rules! c07_inherent {
    ($r:expr, $a:expr, $b:expr, bnum) => {
        $r.form("eq", || boolv($a.eq(&$b)));
        $r.form("ne", || boolv($a.ne(&$b)));
        $r.form("lt", || boolv($a.lt(&$b)));
        $r.form("le", || boolv($a.le(&$b)));
        $r.form("gt", || boolv($a.gt(&$b)));
        $r.form("ge", || boolv($a.ge(&$b)));
        $r.form("cmp", || ordv($a.cmp(&$b)));
        $r.form("max", || val($a.max($b)));
        $r.form("min", || val($a.min($b)));
    };
    ($r:expr, $a:expr, $b:expr, prim) => {};
}
macro_rules! c07_clamp_one {
    ($r:expr, $x:expr, $lo:expr, $hi:expr, $prim:tt) => {{
        // the caller orders the bounds with the harness's own byte comparison (never with bnum)
        let (x, lo, hi) = ($x, $lo, $hi);
        $r.sem = "C07";
        $r.fam("clamp", vec![int(&x), int(&lo), int(&hi)]);
        $r.form("ord_clamp", || val(Ord::clamp(x, lo, hi)));
        c07_clamp_inherent!($r, x, lo, hi, $prim);
    }};
}
macro_rules! c07_clamp_inherent {
    ($r:expr, $x:expr, $lo:expr, $hi:expr, bnum) => {
        $r.form("clamp", || val($x.clamp($lo, $hi)));
    };
    ($r:expr, $x:expr, $lo:expr, $hi:expr, prim) => {};
}
macro_rules! c07_pair {
    ($U:ty, $I:ty, $ru:expr, $ri:expr, $a:expr, $b:expr, $c:expr, $prim:tt) => {{
        let ua = <$U as Bn>::dec($a);
        let ub = <$U as Bn>::dec($b);
        let uc = <$U as Bn>::dec($c);
        let ia = <$I as Bn>::dec($a);
        let ib = <$I as Bn>::dec($b);
        let ic = <$I as Bn>::dec($c);
        c07_pair_one!($ru, ua, ub, $prim);
        c07_pair_one!($ri, ia, ib, $prim);
        // clamp: order the bounds with primitive byte comparison of the harness, not with bnum
        let (ulo, uhi) = if gen::ucmp($b, $c) == std::cmp::Ordering::Greater { (uc, ub) } else { (ub, uc) };
        c07_clamp_one!($ru, ua, ulo, uhi, $prim);
        let sb = gen::scmp($b, $c);
        let (ilo, ihi) = if sb == std::cmp::Ordering::Greater { (ic, ib) } else { (ib, ic) };
        c07_clamp_one!($ri, ia, ilo, ihi, $prim);
        $ri.sem = "C07";
        $ri.fam("sign", vec![int(&ia)]);
        $ri.form("signum", || val(ia.signum()));
        $ri.form("is_positive", || boolv(ia.is_positive()));
        $ri.form("is_negative", || boolv(ia.is_negative()));
    }};
}

// ----------------------------------------------------------------------------------------------

#[derive(Default)]
struct Inputs {
    shifts: Vec<(B, u32)>,
    vals: Vec<B>,
    pairs: Vec<(B, B)>,
    bits: Vec<(B, u32)>,
    triples: Vec<(B, B, B)>,
}

fn shift_amounts(r: &mut Rng, w: u32, thorough: bool) -> Vec<u32> {
    let mut v: Vec<u32> = Vec::new();
    if thorough || w <= 16 {
        v.extend(0..=(2 * w + 1));
    } else {
        v.extend([0, 1, 2, 7, 8, 9, w / 2, w - 9, w - 8, w - 7, w - 2, w - 1, w, w + 1, w + 7, w + 8, w + 9, 2 * w - 1, 2 * w, 2 * w + 1]);
        // multiples of each digit width +- 1
        for d in [8u32, 16, 32, 64] {
            let mut k = d;
            while k <= w {
                if r.below(3) == 0 {
                    v.extend([k - 1, k, k + 1]);
                }
                k += d;
            }
        }
        for _ in 0..6 {
            v.push(r.below(w as u64) as u32);
        }
    }
    for k in [5u32, 6, 7, 8, 9, 10, 11, 12, 15, 16, 24, 31] {
        v.push(1u32 << k);
        v.push((1u32 << k) - 1);
        if !thorough && k > 8 && r.below(2) == 0 {
            v.pop();
        }
    }
    v.extend([u32::MAX, u32::MAX - 1, 1u32 << 31, (1u32 << 31) + w - 1, u32::MAX - w + 1, 3 * w, 3 * w + 1, 1000 * w + 5]);
    v.sort();
    v.dedup();
    v
}

/// a handful of operands for the 2080- and 8192-bit types
fn giant_inputs(prop: &str, seed: u64, w: u32, thorough: bool) -> Inputs {
    let n = (w / 8) as usize;
    let mut r = Rng::new(seed ^ ((w as u64) << 32) ^ 0x61a47);
    let mut i = Inputs::default();
    let k = if thorough { 10 } else { 2 };
    match prop {
        "C05" => {
            let amts: Vec<u32> = vec![0, 1, 7, 8, 9, 63, 64, 65, w / 2, w - 65, w - 64, w - 63, w - 33, w - 32, w - 9, w - 8, w - 1, w, w + 1, 2048, 2047, 2049, u32::MAX];
            for a in amts {
                i.shifts.push((gen::small(n, 3), a));
                i.shifts.push((gen::random(&mut r, n), a));
                for _ in 0..k {
                    let sl = 1 + r.below(n as u64) as usize;
                    let sv = gen::fit(&gen::short(&mut r, sl), n);
                    let sa = r.below(w as u64) as u32;
                    i.shifts.push((sv, sa));
                }
            }
        }
        "C06" => {
            i.vals = vec![gen::ones(n), gen::smin(n), gen::small(n, 1), gen::random(&mut r, n), gen::pow2(n, (w / 2 + 3) as usize)];
            i.pairs = vec![(gen::random(&mut r, n), gen::random(&mut r, n))];
            i.bits = vec![(gen::random(&mut r, n), w - 1), (gen::zero(n), w / 2 + 1), (gen::ones(n), 2055.min(w - 1))];
        }
        "C07" => {
            let a = gen::random(&mut r, n);
            let mut b = a.clone();
            b[n / 2] ^= 1;
            i.triples = vec![(a.clone(), b, gen::zero(n)), (gen::ones(n), gen::smin(n), gen::smax(n)), (a.clone(), a, gen::small(n, 1))];
        }
        _ => {}
    }
    i
}

fn inputs(prop: &str, seed: u64, w: u32, thorough: bool) -> Inputs {
    if w > 1024 {
        return giant_inputs(prop, seed, w, thorough);
    }
    let n = (w / 8) as usize;
    let mut r = Rng::new(seed ^ ((w as u64) << 32) ^ (prop.as_bytes()[2] as u64 * 131 + prop.as_bytes()[1] as u64));
    let mut i = Inputs::default();
    let bnd = gen::boundary(n);
    if thorough && w == 8 {
        // thorough tier: the 8-bit types completely
        let all: Vec<B> = (0..=255u8).map(|v| vec![v]).collect();
        match prop {
            "C05" => {
                let mut amts: Vec<u32> = (0..=17).collect();
                amts.extend([31, 32, 33, 63, 64, 65, 255, 256, 257, 1 << 16, 1 << 31, u32::MAX - 1, u32::MAX]);
                i.shifts = all.iter().flat_map(|a| amts.clone().into_iter().map(move |k| (a.clone(), k))).collect();
            }
            "C06" => {
                i.vals = all.clone();
                i.pairs = all.iter().flat_map(|a| all.iter().map(move |b| (a.clone(), b.clone()))).collect();
                i.bits = all.iter().flat_map(|a| (0..8u32).map(move |k| (a.clone(), k))).collect();
            }
            "C07" => {
                // every pair, with a third operand that makes every ordering of (a, b, c) occur
                i.triples = all.iter().flat_map(|a| all.iter().map(move |b| (a.clone(), b.clone(), vec![a[0].wrapping_mul(5) ^ b[0].rotate_left(3)]))).collect();
            }
            _ => panic!("unknown property"),
        }
        return i;
    }
    match prop {
        "C05" => {
            let amts = shift_amounts(&mut r, w, thorough);
            let xs_fixed = [gen::ones(n), gen::small(n, 1), gen::smin(n), gen::smax(n), gen::sub1(&gen::ones(n))];
            let per = if thorough { 6 } else { 2 };
            for a in amts {
                i.shifts.push((r.pick(&xs_fixed).clone(), a));
                for _ in 0..per {
                    i.shifts.push((gen::any(&mut r, n, &bnd), a));
                }
                i.shifts.push((gen::random(&mut r, n), a));
            }
        }
        "C06" => {
            i.vals = gen::values(&mut r, n, if thorough { 500 } else { 70 });
            // k whole extreme digits followed by a partial digit, at every granularity
            for g in [1usize, 2, 4, 8] {
                let mut k = 0;
                while k * g <= n {
                    if thorough || r.below(3) == 0 {
                        for fill in [0u8, 0xff] {
                            for lead in [false, true] {
                                let mut v = gen::random(&mut r, n);
                                let m = (k * g).min(n);
                                let sh = r.below(8) as u32;
                                if lead {
                                    for j in 0..m {
                                        v[n - 1 - j] = fill;
                                    }
                                    if m < n {
                                        // sh copies of the fill bit at the top, then the opposite bit
                                        let keep = (v[n - 1 - m] as u32) & ((1u32 << (7 - sh)) - 1);
                                        let hi = if fill == 0 { 1u32 << (7 - sh) } else { (0xffu32 << (8 - sh)) & 0xff };
                                        v[n - 1 - m] = (hi | keep) as u8;
                                    }
                                } else {
                                    for j in 0..m {
                                        v[j] = fill;
                                    }
                                    if m < n {
                                        let keep = (v[m] as u32) & (0xffu32 << (sh + 1)) & 0xff;
                                        let lo = if fill == 0 { 1u32 << sh } else { (1u32 << sh) - 1 };
                                        v[m] = (keep | lo) as u8;
                                    }
                                }
                                i.vals.push(v);
                            }
                        }
                    }
                    k += 1;
                }
            }
            // k digits that are each a single bit (k = 2..5), per granularity: sparse patterns for tests that
            // combine per-digit predicates
            for g in [1usize, 2, 4, 8] {
                let nd = n / g;
                for k in 2..=5usize {
                    if k <= nd && (thorough || r.below(2) == 0) {
                        let mut v = gen::zero(n);
                        let mut used = Vec::new();
                        while used.len() < k {
                            let d = r.below(nd as u64) as usize;
                            if !used.contains(&d) {
                                used.push(d);
                                let bit = r.below((8 * g) as u64) as usize;
                                v[d * g + bit / 8] |= 1 << (bit % 8);
                            }
                        }
                        i.vals.push(v);
                    }
                }
            }
            // digit sequences with internal symmetry at every granularity (reversals and exchanges of digit pairs)
            for g in [1usize, 2, 4, 8] {
                if 2 * g <= n {
                    i.vals.push(gen::symmetric(&mut r, n, g, 0));
                    i.vals.push(gen::symmetric(&mut r, n, g, 1));
                }
            }
            // exact powers of two and neighbours (next_power_of_two, is_power_of_two)
            for k in 0..(8 * n) {
                if thorough || r.below(5) == 0 || k + 1 == 8 * n || k % 64 == 0 || k % 8 == 7 {
                    let p = gen::pow2(n, k);
                    i.vals.push(gen::sub1(&p));
                    i.vals.push(gen::add1(&p));
                    i.vals.push(p);
                }
            }
            i.pairs = gen::pairs(&mut r, n, if thorough { 300 } else { 40 });
            let idx: Vec<u32> = if thorough || w <= 32 { (0..w).collect() } else {
                let mut v: Vec<u32> = vec![0, 1, 7, 8, 9, 15, 16, 17, 31, 32, 33, 63, 64, 65, w - 1, w - 2, w - 8, w - 9, w / 2];
                v.retain(|x| *x < w);
                for _ in 0..8 {
                    v.push(r.below(w as u64) as u32);
                }
                v.sort();
                v.dedup();
                v
            };
            for k in idx {
                i.bits.push((gen::any(&mut r, n, &bnd), k));
                i.bits.push((if r.below(2) == 0 { gen::ones(n) } else { gen::zero(n) }, k));
            }
        }
        "C07" => {
            let np = if thorough { 1500 } else { 120 };
            let mut ps: Vec<(B, B)> = gen::pairs(&mut r, n, np / 2);
            // equal on the top k bytes, differing below; and differing only in one middle digit
            while ps.len() < np {
                let a = gen::any(&mut r, n, &bnd);
                let mut b = a.clone();
                match r.below(7) {
                    0 => {
                        let k = r.below(n as u64) as usize;
                        for j in 0..=k.min(n - 1) {
                            if r.below(2) == 0 {
                                b[j] = (r.next() & 0xff) as u8;
                            }
                        }
                    }
                    1 => {
                        let k = r.below(n as u64) as usize;
                        b[k] ^= 1 << r.below(8);
                    }
                    2 => {
                        // same magnitude bits, opposite sign bit
                        b[n - 1] ^= 0x80;
                    }
                    5 | 6 => {
                        // the same mask flipped in two different digits (differences that cancel under xor), per granularity
                        let g = *r.pick(&[1usize, 2, 4, 8]);
                        if 2 * g <= n {
                            let nd = n / g;
                            let i = r.below(nd as u64) as usize;
                            let mut j = r.below(nd as u64) as usize;
                            if j == i {
                                j = (i + 1) % nd;
                            }
                            let m: Vec<u8> = (0..g).map(|_| (r.next() & 0xff) as u8 | 1).collect();
                            for t in 0..g {
                                b[i * g + t] ^= m[t];
                                b[j * g + t] ^= m[t];
                            }
                        }
                    }
                    3 => {
                        // a digit ordered one way, the digits below it the other way -- at every digit granularity,
                        // so that for each digit type two ADJACENT digits differ in opposite directions under a
                        // shared prefix of equal higher digits
                        let g = *r.pick(&[1usize, 2, 4, 8]);
                        let nd = n / g;
                        if nd >= 2 {
                            let k = 1 + r.below(nd as u64 - 1) as usize;
                            let up = r.below(2) == 0;
                            let bump = |v: &mut B, at: usize, inc: bool| {
                                v[at] = if inc { v[at].wrapping_add(1) } else { v[at].wrapping_sub(1) };
                            };
                            bump(&mut b, k * g + r.below(g as u64) as usize, up);
                            bump(&mut b, (k - 1) * g + r.below(g as u64) as usize, !up);
                            if k >= 2 && r.below(2) == 0 {
                                bump(&mut b, (k - 2) * g, up);
                            }
                        } else {
                            b[0] = b[0].wrapping_add(1);
                        }
                    }
                    _ => {}
                }
                ps.push((a, b));
            }
            for (a, b) in ps {
                let c = match r.below(4) {
                    0 => a.clone(),
                    1 => b.clone(),
                    _ => gen::any(&mut r, n, &bnd),
                };
                i.triples.push((a, b, c));
            }
            // sign tests: zero top digit with non-zero lower digits, at every granularity
            for g in [1usize, 2, 4, 8] {
                let mut k = 0;
                while (k + 1) * g <= n {
                    let mut v = gen::zero(n);
                    v[k * g] = 1;
                    i.triples.push((v.clone(), gen::zero(n), gen::negate(&v)));
                    k += 1;
                }
            }
        }
        _ => panic!("unknown property"),
    }
    i
}

macro_rules! run_all {
    (@go $prim:tt, $imp:literal, $w:literal; $(($U:ty, $I:ty)),+) => {
        CTX.with(|c| {
            let mut c = c.borrow_mut();
            let c = c.as_mut().unwrap();
            if c.cli.only_width.map_or(true, |x| x == $w) {
                let inp = inputs(&c.cli.prop, c.cli.seed, $w, c.cli.tier == "thorough");
                let mut us: Vec<(&'static str, Rec)> = Vec::new();
                let mut is: Vec<(&'static str, Rec)> = Vec::new();
                $(
                    {
                        let mut ru = Rec::new();
                        let mut ri = Rec::new();
                        for (x, s) in inp.shifts.iter() {
                            c05_pair!($U, $I, ru, ri, x, *s, $prim);
                        }
                        for (a, b) in inp.pairs.iter() {
                            c06_pair!($U, $I, ru, ri, a, b, $prim);
                        }
                        for a in inp.vals.iter() {
                            c06_unary!($U, $I, ru, ri, a, $prim);
                        }
                        for (a, k) in inp.bits.iter() {
                            c06_bit!($U, $I, ru, ri, a, *k, $prim);
                        }
                        for (a, b, cc) in inp.triples.iter() {
                            c07_pair!($U, $I, ru, ri, a, b, cc, $prim);
                        }
                        us.push((<$U as Bn>::DT, ru));
                        is.push((<$I as Bn>::DT, ri));
                    }
                )+
                c.sink.merge($w, false, $imp, us);
                c.sink.merge($w, true, $imp, is);
            }
        });
    };
}
macro_rules! run_bnum {
    ($w:literal; $(($U:ty, $I:ty)),+) => { run_all!(@go bnum, "bnum", $w; $(($U, $I)),+); };
}
macro_rules! run_prim {
    ($w:literal; $(($U:ty, $I:ty)),+) => { run_all!(@go prim, "prim", $w; $(($U, $I)),+); };
}

struct Ctx {
    cli: Cli,
    sink: Sink,
}
thread_local! {
    static CTX: std::cell::RefCell<Option<Ctx>> = std::cell::RefCell::new(None);
}

fn main() {
    install_hook();
    let cli = parse_cli();
    let prop = cli.prop.clone();
    let sink = Sink::new(&cli.out, &prop);
    let prims = cli.extra.iter().any(|x| x == "--prims");
    CTX.with(|c| *c.borrow_mut() = Some(Ctx { cli, sink }));
    if prims {
        for_prims!(run_prim);
    } else {
        the_matrix!(run_bnum);
        the_giants!(run_bnum);
    }
    let ctx = CTX.with(|c| c.borrow_mut().take().unwrap());
    let (n, splits) = ctx.sink.finish();
    eprintln!("recorded {} events, {} digit-type splits, mode {}", n, splits, MODE);
}
