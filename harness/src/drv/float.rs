// body of the `float` recorder, included by src/bin/float.rs (the matrix of DESIGN.md 5.1) and by src/bin/float_s<k>.rs
// (chunk k of the width sweep); `the_matrix!` and `the_giants!` are defined by the including file.

use bnum::cast::{As, CastFrom};
use bnum_verif_harness::gen::{self, Rng, B};
use bnum_verif_harness::*;
use num_traits::{AsPrimitive, FromPrimitive, ToPrimitive};

fn f32_arg(bits: u32) -> Arg {
    Arg::Int { w: 32, s: false, v: bits.to_le_bytes().to_vec() }
}
fn f64_arg(bits: u64) -> Arg {
    Arg::Int { w: 64, s: false, v: bits.to_le_bytes().to_vec() }
}
fn f32_out(f: f32) -> Out {
    Out::Val(f.to_bits().to_le_bytes().to_vec())
}
fn f64_out(f: f64) -> Out {
    Out::Val(f.to_bits().to_le_bytes().to_vec())
}
fn ty<T: Bn>() -> Arg {
    Arg::Int { w: T::W, s: T::S, v: vec![] }
}

/// float bit patterns aimed at a target of `w` bits: exponents around 0, 1, the target width and
/// the mantissa width; mantissas zero / one / all ones / half / random; both signs; specials
fn float_patterns(r: &mut Rng, w: u32, ebits: u32, mbits: u32, thorough: bool) -> Vec<u64> {
    let bias: i64 = (1i64 << (ebits - 1)) - 1;
    let emax: i64 = (1i64 << ebits) - 1;
    let w = w as i64;
    let p = mbits as i64;
    let mut exps: Vec<i64> = vec![0, 1, 2, bias - 3, bias - 2, bias - 1, bias, bias + 1, bias + 2, bias + 7, bias + 8, bias + w - 2, bias + w - 1, bias + w, bias + w + 1,
        bias + p - 1, bias + p, bias + p + 1, emax - 1, emax];
    // 2^k at the widths of the primitive integers (fast paths through primitives have their boundary there)
    for k in [15i64, 16, 31, 32, 62, 63, 64, 65, 126, 127, 128, 129] {
        exps.push(bias + k);
    }
    // fractions: 2^-k around the same widths and around the mantissa length (shift amounts computed from the
    // exponent go negative there); a random half in the quick tier
    for k in [8i64, 9, 10, 16, 17, 23, 24, 25, 31, 32, 33, 52, 53, 54, 63, 64, 65, 127] {
        if thorough || r.below(2) == 0 {
            exps.push(bias - k);
        }
    }
    if thorough {
        for e in 0..=emax {
            if e % 3 == 0 || (e - bias).abs() < 2 * w + 8 {
                exps.push(e);
            }
        }
    } else {
        for _ in 0..4 {
            exps.push(r.below(emax as u64 + 1) as i64);
            exps.push(bias + r.below(w as u64 + 2) as i64);
        }
    }
    exps.retain(|e| *e >= 0 && *e <= emax);
    exps.sort();
    exps.dedup();
    let mfull: u64 = (1u64 << mbits) - 1;
    let mut v = Vec::new();
    for e in exps {
        let mut ms: Vec<u64> = vec![1, mfull, 1u64 << (mbits - 1), (1u64 << (mbits - 1)) | 1, r.next() & mfull];
        if !thorough {
            let k = r.below(ms.len() as u64) as usize;
            ms.remove(k);
            let k = r.below(ms.len() as u64) as usize;
            ms.remove(k);
        }
        ms.push(0); // exact powers of two always
        for m in ms {
            for s in [0u64, 1] {
                if !thorough && s == 1 && r.below(3) == 0 {
                    continue;
                }
                v.push((s << (ebits + mbits)) | ((e as u64) << mbits) | m);
            }
        }
    }
    v
}

/// integers of interesting rounding classes for a float with `mbits` explicit mantissa bits, as
/// patterns of n bytes: bit length L, kept mantissa (all ones / even / odd / random), round bit, sticky
fn int_patterns(r: &mut Rng, n: usize, thorough: bool) -> Vec<B> {
    let w = 8 * n;
    if thorough && n <= 2 {
        // thorough tier: every value of the 8- and 16-bit types
        return (0..(1u32 << w)).map(|x| x.to_le_bytes()[..n].to_vec()).collect();
    }
    let mut v: Vec<B> = vec![gen::zero(n), gen::small(n, 1), gen::ones(n), gen::smin(n), gen::smax(n), gen::small(n, 2), gen::small(n, 3)];
    let mut lens: Vec<usize> = vec![2, 8, 23, 24, 25, 26, 27, 52, 53, 54, 55, 56, 63, 64, 65, 127, 128, 129, 130, 1023, 1024, 1025, 1026, w - 1, w];
    for _ in 0..(if thorough { 40 } else { 8 }) {
        lens.push(1 + r.below(w as u64) as usize);
    }
    lens.retain(|l| *l >= 1 && *l <= w);
    lens.sort();
    lens.dedup();
    for l in lens {
        for keep in [24usize, 53] {
            // value = [1][keep-1 mantissa bits][round bit][sticky bits...] with total length l
            let variants = if thorough { 16 } else { 5 };
            for _ in 0..variants {
                let mut x = vec![0u8; n];
                let setbit = |x: &mut B, i: usize, b: bool| {
                    if b {
                        x[i / 8] |= 1 << (i % 8);
                    } else {
                        x[i / 8] &= !(1 << (i % 8));
                    }
                };
                setbit(&mut x, l - 1, true);
                let mant_kind = r.below(4);
                for k in 1..keep.min(l) {
                    let b = match mant_kind {
                        0 => true,
                        1 => false,
                        _ => r.below(2) == 1,
                    };
                    setbit(&mut x, l - 1 - k, b);
                }
                if l > keep {
                    // parity of the kept mantissa
                    if r.below(2) == 0 {
                        setbit(&mut x, l - keep, r.below(2) == 1);
                    }
                    let round = r.below(3) != 0;
                    setbit(&mut x, l - keep - 1, round);
                    // sticky part: all zero (a tie), only the lowest bit, one single bit at a random position,
                    // one single bit within 12 places of the round bit, or random
                    let sticky = r.below(5);
                    let nst = l - keep - 1;
                    let single = if nst == 0 { 0 } else if sticky == 2 { r.below(nst as u64) as usize } else { nst - 1 - (r.below(12.min(nst as u64)) as usize) };
                    for k in 0..nst {
                        let b = match sticky {
                            0 => false,
                            1 => k == 0,
                            2 | 3 => k == single,
                            _ => r.below(2) == 1,
                        };
                        setbit(&mut x, k, b);
                    }
                }
                v.push(x.clone());
                if r.below(3) == 0 {
                    v.push(gen::negate(&x));
                }
            }
        }
    }
    // "just above a tie": even kept mantissa, round bit set, ONE sticky bit -- at every position below the round bit (the
    // sticky information is gathered digit by digit; a slice of one digit that is never looked at only shows here), for
    // the full bit length and one random length, both float formats.  `stride` thins the positions (width sweep).
    let stride = STICKY_STRIDE.with(|c| c.get()).max(1);
    let mut ls = vec![w, 1 + r.below(w as u64) as usize];
    if w > 140 {
        ls.push(130 + r.below((w - 130) as u64) as usize);
    }
    for l in ls {
        for keep in [24usize, 53] {
            if l <= keep + 1 {
                continue;
            }
            let nst = l - keep - 1;
            let mut base = vec![0u8; n];
            let setb = |x: &mut B, i: usize| x[i / 8] |= 1 << (i % 8);
            setb(&mut base, l - 1);
            for k in 1..keep {
                if r.below(2) == 1 && k != keep - 1 {
                    setb(&mut base, l - 1 - k); // random mantissa, lowest kept bit left clear (even)
                }
            }
            setb(&mut base, l - keep - 1); // round bit
            let mut k = (r.below(stride as u64)) as usize;
            while k < nst {
                let mut x = base.clone();
                setb(&mut x, k);
                v.push(x);
                k += stride;
            }
        }
    }
    v.sort();
    v.dedup();
    v
}

thread_local! {
    /// distance between the single-sticky-bit positions tried by `int_patterns` (1 = every position)
    static STICKY_STRIDE: std::cell::Cell<usize> = std::cell::Cell::new(1);
}

fn c14_type<T>(rec: &mut Rec, seed: u64, thorough: bool)
where
    T: Bn + CastFrom<f32> + CastFrom<f64> + Copy + 'static,
    f32: CastFrom<T> + AsPrimitive<T>,
    f64: CastFrom<T> + AsPrimitive<T>,
{
    let n = (T::W / 8) as usize;
    let mut r = Rng::new(seed ^ ((T::W as u64) << 31) ^ 0xC14);
    rec.sem = "C14";
    for b in int_patterns(&mut r, n, thorough) {
        let x = T::dec(&b);
        rec.fam("int_to_float", vec![int(&x)]);
        rec.form("f32", || f32_out(<f32 as CastFrom<T>>::cast_from(x)));
        rec.form("f64", || f64_out(<f64 as CastFrom<T>>::cast_from(x)));
        rec.form("as_f32", || f32_out(As::as_::<f32>(x)));
        rec.form("as_f64", || f64_out(As::as_::<f64>(x)));
    }
    for bits in float_patterns(&mut r, T::W, 8, 23, thorough) {
        let f = f32::from_bits(bits as u32);
        rec.fam("float_to_int", vec![f32_arg(bits as u32), ty::<T>()]);
        rec.form("cast_from", || val(<T as CastFrom<f32>>::cast_from(f)));
        rec.form("as_", || val(As::as_::<T>(f)));
        rec.form("asprimitive", || val(<f32 as AsPrimitive<T>>::as_(f)));
    }
    for bits in float_patterns(&mut r, T::W, 11, 52, thorough) {
        let f = f64::from_bits(bits);
        rec.fam("float_to_int", vec![f64_arg(bits), ty::<T>()]);
        rec.form("cast_from", || val(<T as CastFrom<f64>>::cast_from(f)));
        rec.form("as_", || val(As::as_::<T>(f)));
        rec.form("asprimitive", || val(<f64 as AsPrimitive<T>>::as_(f)));
    }
}

fn optv<T: Bn>(o: Option<T>) -> Out {
    opt(o)
}
macro_rules! prim_some {
    ($e:expr, $w:literal) => {
        match $e {
            Some(v) => Out::Some_((v as u128).to_le_bytes()[..($w / 8)].to_vec()),
            None => Out::None_,
        }
    };
}

fn c19_type<T>(rec: &mut Rec, seed: u64, thorough: bool)
where
    T: Bn + FromPrimitive + ToPrimitive
        + AsPrimitive<u8> + AsPrimitive<u16> + AsPrimitive<u32> + AsPrimitive<u64> + AsPrimitive<u128> + AsPrimitive<usize>
        + AsPrimitive<i8> + AsPrimitive<i16> + AsPrimitive<i32> + AsPrimitive<i64> + AsPrimitive<i128> + AsPrimitive<isize>
        + AsPrimitive<f32> + AsPrimitive<f64>,
{
    let n = (T::W / 8) as usize;
    let mut r = Rng::new(seed ^ ((T::W as u64) << 30) ^ 0xC19 ^ (T::S as u64));
    rec.sem = "C19";
    // FromPrimitive: every primitive source, values around the target's bounds and the source's bounds
    macro_rules! from_prim {
        ($p:ident, $pw:literal, $ps:expr, $m:ident) => {{
            let pn = $pw / 8;
            let mut vals: Vec<B> = vec![gen::zero(pn), gen::small(pn, 1), gen::ones(pn), gen::smin(pn), gen::smax(pn)];
            for k in [T::W as usize, T::W as usize - 1] {
                if k < $pw {
                    let p = gen::pow2(pn, k);
                    vals.extend([p.clone(), gen::sub1(&p), gen::add1(&p), gen::negate(&p), gen::sub1(&gen::negate(&p)), gen::add1(&gen::negate(&p))]);
                }
            }
            for _ in 0..(if thorough { 10 } else { 2 }) {
                vals.push(gen::random(&mut r, pn));
                vals.push(gen::short(&mut r, pn));
            }
            vals.sort();
            vals.dedup();
            for b in vals {
                let mut full = [0u8; 16];
                let ext = if $ps && b[pn - 1] & 0x80 != 0 { 0xffu8 } else { 0 };
                for k in 0..16 {
                    full[k] = if k < pn { b[k] } else { ext };
                }
                let pv = u128::from_le_bytes(full) as $p;
                rec.ev("from_prim", vec![Arg::Int { w: $pw, s: $ps, v: b.clone() }, ty::<T>(), tag(stringify!($p))], || optv(<T as FromPrimitive>::$m(pv)));
            }
        }};
    }
    from_prim!(u8, 8, false, from_u8);
    from_prim!(u16, 16, false, from_u16);
    from_prim!(u32, 32, false, from_u32);
    from_prim!(u64, 64, false, from_u64);
    from_prim!(u128, 128, false, from_u128);
    from_prim!(usize, 64, false, from_usize);
    from_prim!(i8, 8, true, from_i8);
    from_prim!(i16, 16, true, from_i16);
    from_prim!(i32, 32, true, from_i32);
    from_prim!(i64, 64, true, from_i64);
    from_prim!(i128, 128, true, from_i128);
    from_prim!(isize, 64, true, from_isize);
    for bits in float_patterns(&mut r, T::W, 8, 23, thorough) {
        let f = f32::from_bits(bits as u32);
        rec.ev("from_float", vec![f32_arg(bits as u32), ty::<T>()], || optv(<T as FromPrimitive>::from_f32(f)));
    }
    for bits in float_patterns(&mut r, T::W, 11, 52, thorough) {
        let f = f64::from_bits(bits);
        rec.ev("from_float", vec![f64_arg(bits), ty::<T>()], || optv(<T as FromPrimitive>::from_f64(f)));
    }
    // ToPrimitive and AsPrimitive: values around every primitive's bounds
    let mut vals: Vec<B> = vec![gen::zero(n), gen::small(n, 1), gen::ones(n), gen::smin(n), gen::smax(n)];
    for k in [7usize, 8, 15, 16, 31, 32, 63, 64, 127, 128] {
        if k < 8 * n {
            let p = gen::pow2(n, k);
            vals.extend([p.clone(), gen::sub1(&p), gen::add1(&p), gen::negate(&p), gen::sub1(&gen::negate(&p)), gen::add1(&gen::negate(&p))]);
        }
    }
    vals.extend(int_patterns(&mut r, n, false).into_iter().step_by(if thorough { 2 } else { 9 }));
    vals.sort();
    vals.dedup();
    for b in vals {
        let x = T::dec(&b);
        rec.fam("to_prim", vec![int(&x)]);
        rec.form("to_u8", || prim_some!(x.to_u8(), 8));
        rec.form("to_u16", || prim_some!(x.to_u16(), 16));
        rec.form("to_u32", || prim_some!(x.to_u32(), 32));
        rec.form("to_u64", || prim_some!(x.to_u64(), 64));
        rec.form("to_u128", || prim_some!(x.to_u128(), 128));
        rec.form("to_usize", || prim_some!(x.to_usize(), 64));
        rec.form("to_i8", || prim_some!(x.to_i8(), 8));
        rec.form("to_i16", || prim_some!(x.to_i16(), 16));
        rec.form("to_i32", || prim_some!(x.to_i32(), 32));
        rec.form("to_i64", || prim_some!(x.to_i64(), 64));
        rec.form("to_i128", || prim_some!(x.to_i128(), 128));
        rec.form("to_isize", || prim_some!(x.to_isize(), 64));
        rec.form("to_f32", || match x.to_f32() {
            Some(f) => Out::Some_(f.to_bits().to_le_bytes().to_vec()),
            None => Out::None_,
        });
        rec.form("to_f64", || match x.to_f64() {
            Some(f) => Out::Some_(f.to_bits().to_le_bytes().to_vec()),
            None => Out::None_,
        });
        macro_rules! asp {
            ($p:ident, $w:literal, $name:literal) => {
                rec.form($name, || Out::Val((<T as AsPrimitive<$p>>::as_(x) as u128).to_le_bytes()[..($w / 8)].to_vec()));
            };
        }
        asp!(u8, 8, "as_u8");
        asp!(u16, 16, "as_u16");
        asp!(u32, 32, "as_u32");
        asp!(u64, 64, "as_u64");
        asp!(u128, 128, "as_u128");
        asp!(usize, 64, "as_usize");
        asp!(i8, 8, "as_i8");
        asp!(i16, 16, "as_i16");
        asp!(i32, 32, "as_i32");
        asp!(i64, 64, "as_i64");
        asp!(i128, 128, "as_i128");
        asp!(isize, 64, "as_isize");
        rec.form("as_f32", || f32_out(<T as AsPrimitive<f32>>::as_(x)));
        rec.form("as_f64", || f64_out(<T as AsPrimitive<f64>>::as_(x)));
    }
}

/// calibration of the float semantics against Rust's own `as` on the primitive integers
fn c14_prim<T: Bn>(rec: &mut Rec, seed: u64, thorough: bool, to_f32: fn(T) -> f32, to_f64: fn(T) -> f64, from_f32: fn(f32) -> T, from_f64: fn(f64) -> T) {
    let n = (T::W / 8) as usize;
    let mut r = Rng::new(seed ^ ((T::W as u64) << 31) ^ 0xC14);
    rec.sem = "C14";
    for b in int_patterns(&mut r, n, thorough) {
        let x = T::dec(&b);
        rec.fam("int_to_float", vec![int(&x)]);
        rec.form("f32", || f32_out(to_f32(x)));
        rec.form("f64", || f64_out(to_f64(x)));
    }
    for bits in float_patterns(&mut r, T::W, 8, 23, thorough) {
        let f = f32::from_bits(bits as u32);
        rec.ev("float_to_int", vec![f32_arg(bits as u32), ty::<T>()], || val(from_f32(f)));
    }
    for bits in float_patterns(&mut r, T::W, 11, 52, thorough) {
        let f = f64::from_bits(bits);
        rec.ev("float_to_int", vec![f64_arg(bits), ty::<T>()], || val(from_f64(f)));
    }
}
fn c19_prim<T: Bn + FromPrimitive + ToPrimitive>(rec: &mut Rec, seed: u64, thorough: bool) {
    let n = (T::W / 8) as usize;
    let mut r = Rng::new(seed ^ ((T::W as u64) << 30) ^ 0xC19 ^ (T::S as u64));
    rec.sem = "C19";
    for bits in float_patterns(&mut r, T::W, 8, 23, thorough) {
        let f = f32::from_bits(bits as u32);
        rec.ev("from_float", vec![f32_arg(bits as u32), ty::<T>()], || optv(<T as FromPrimitive>::from_f32(f)));
    }
    for bits in float_patterns(&mut r, T::W, 11, 52, thorough) {
        let f = f64::from_bits(bits);
        rec.ev("from_float", vec![f64_arg(bits), ty::<T>()], || optv(<T as FromPrimitive>::from_f64(f)));
    }
}

struct Ctx {
    cli: Cli,
    sink: Sink,
}
thread_local! {
    static CTX: std::cell::RefCell<Option<Ctx>> = std::cell::RefCell::new(None);
}

fn run_one<T>(c: &Ctx) -> Rec
where
    T: Bn + CastFrom<f32> + CastFrom<f64> + FromPrimitive + ToPrimitive
        + AsPrimitive<u8> + AsPrimitive<u16> + AsPrimitive<u32> + AsPrimitive<u64> + AsPrimitive<u128> + AsPrimitive<usize>
        + AsPrimitive<i8> + AsPrimitive<i16> + AsPrimitive<i32> + AsPrimitive<i64> + AsPrimitive<i128> + AsPrimitive<isize>
        + AsPrimitive<f32> + AsPrimitive<f64> + Copy + 'static,
    f32: CastFrom<T> + AsPrimitive<T>,
    f64: CastFrom<T> + AsPrimitive<T>,
{
    let mut rec = Rec::new();
    let thorough = c.cli.tier == "thorough";
    match c.cli.prop.as_str() {
        "C14" => c14_type::<T>(&mut rec, c.cli.seed, thorough),
        "C19" => c19_type::<T>(&mut rec, c.cli.seed, thorough),
        _ => panic!("unknown property"),
    }
    rec
}

macro_rules! run_bnum {
    ($w:literal; $(($U:ty, $I:ty)),+) => {
        CTX.with(|c| {
            let mut c = c.borrow_mut();
            let c = c.as_mut().unwrap();
            if c.cli.only_width.map_or(true, |x| x == $w) {
                let mut us: Vec<(&'static str, Rec)> = Vec::new();
                let mut is: Vec<(&'static str, Rec)> = Vec::new();
                $(
                    us.push((<$U as Bn>::DT, run_one::<$U>(c)));
                    is.push((<$I as Bn>::DT, run_one::<$I>(c)));
                )+
                c.sink.merge($w, false, "bnum", us);
                c.sink.merge($w, true, "bnum", is);
            }
        });
    };
}

macro_rules! run_prim {
    ($w:literal; $(($U:ty, $I:ty)),+) => {
        CTX.with(|c| {
            let mut c = c.borrow_mut();
            let c = c.as_mut().unwrap();
            let thorough = c.cli.tier == "thorough";
            $(
                let mut ru = Rec::new();
                let mut ri = Rec::new();
                if c.cli.prop == "C14" {
                    c14_prim::<$U>(&mut ru, c.cli.seed, thorough, |x| x as f32, |x| x as f64, |f| f as $U, |f| f as $U);
                    c14_prim::<$I>(&mut ri, c.cli.seed, thorough, |x| x as f32, |x| x as f64, |f| f as $I, |f| f as $I);
                } else {
                    c19_prim::<$U>(&mut ru, c.cli.seed, thorough);
                    c19_prim::<$I>(&mut ri, c.cli.seed, thorough);
                }
                c.sink.merge($w, false, "prim", vec![("prim", ru)]);
                c.sink.merge($w, true, "prim", vec![("prim", ri)]);
            )+
        });
    };
}

fn main() {
    install_hook();
    let cli = parse_cli();
    let prop = cli.prop.clone();
    let sink = Sink::new(&cli.out, &prop);
    let prims = cli.extra.iter().any(|x| x == "--prims");
    if cli.extra.iter().any(|x| x == "--sweep") {
        STICKY_STRIDE.with(|c| c.set(7)); // the width sweep tries every seventh sticky position (random offset)
    }
    CTX.with(|c| *c.borrow_mut() = Some(Ctx { cli, sink }));
    if prims {
        for_prims!(run_prim);
    } else {
        the_matrix!(run_bnum);
        // widths above 1024 bits: the f64 overflow-to-infinity boundary
        run_bnum!(1032; (BUintD8<129>, BIntD8<129>));
        run_bnum!(1088; (BUint<17>, BInt<17>));
    }
    let ctx = CTX.with(|c| c.borrow_mut().take().unwrap());
    let (n, splits) = ctx.sink.finish();
    eprintln!("recorded {} events, {} digit-type splits, mode {}", n, splits, MODE);
}
