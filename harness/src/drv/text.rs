// body of the `text` recorder, included by src/bin/text.rs (the matrix of DESIGN.md 5.1) and by src/bin/text_s<k>.rs
// (chunk k of the width sweep); `the_matrix!` and `the_giants!` are defined by the including file.

use bnum_verif_harness::fmtgen::{self, Obj, SPECS};
use bnum_verif_harness::gen::{self, Rng, B};
use bnum_verif_harness::*;
use core::num::IntErrorKind;
use core::str::FromStr;

fn kind_name(k: &IntErrorKind) -> &'static str {
    match k {
        IntErrorKind::Empty => "Empty",
        IntErrorKind::InvalidDigit => "InvalidDigit",
        IntErrorKind::PosOverflow => "PosOverflow",
        IntErrorKind::NegOverflow => "NegOverflow",
        IntErrorKind::Zero => "Zero",
        _ => "Other",
    }
}

/// what the text drivers need from a type; implemented per family by macro (inherent methods)
trait Text: Bn + std::fmt::Display + std::fmt::Debug + std::fmt::Binary + std::fmt::Octal + std::fmt::LowerHex + std::fmt::UpperHex + std::fmt::LowerExp + std::fmt::UpperExp {
    fn parse_events(rec: &mut Rec, s: &[u8], radix: u32);
    fn from_radix_events(rec: &mut Rec, ds_be: &[u8], radix: u32);
    fn to_radix_events(rec: &mut Rec, x: Self, radix: u32);
}

fn parse_out<T: Bn>(r: Result<T, bnum::errors::ParseIntError>) -> Out {
    match r {
        Ok(v) => Out::Ok_(v.enc()),
        Err(e) => Out::Err_(kind_name(e.kind()).to_string()),
    }
}
fn std_parse_out<T: Bn>(r: Result<T, core::num::ParseIntError>) -> Out {
    match r {
        Ok(v) => Out::Ok_(v.enc()),
        Err(e) => Out::Err_(kind_name(e.kind()).to_string()),
    }
}

macro_rules! text_impl {
    ($($F:ident),*) => {$(
        impl<const N: usize> Text for $F<N> {
            fn parse_events(rec: &mut Rec, s: &[u8], radix: u32) {
                rec.sem = "C10";
                rec.fam("parse", vec![bytes(s), nat(radix as u128)]);
                rec.form("parse_bytes", || opt(Self::parse_bytes(s, radix)));
                if let Ok(st) = core::str::from_utf8(s) {
                    rec.form("from_str_radix", || parse_out(Self::from_str_radix(st, radix)));
                    rec.form("parse_str_radix", || val(Self::parse_str_radix(st, radix)));
                    if radix == 10 {
                        rec.form("from_str", || parse_out(<Self as FromStr>::from_str(st)));
                        rec.form("str_parse", || parse_out(st.parse::<Self>()));
                    }
                }
            }
            fn from_radix_events(rec: &mut Rec, ds_be: &[u8], radix: u32) {
                let mut le = ds_be.to_vec();
                le.reverse();
                rec.sem = "C10";
                rec.fam("from_radix", vec![bytes(ds_be), nat(radix as u128)]);
                rec.form("be", || opt(Self::from_radix_be(ds_be, radix)));
                rec.form("le", || opt(Self::from_radix_le(&le, radix)));
            }
            fn to_radix_events(rec: &mut Rec, x: Self, radix: u32) {
                rec.sem = "C11";
                rec.fam("to_radix", vec![int(&x), nat(radix as u128)]);
                rec.form("str", || bytesv(x.to_str_radix(radix).as_bytes()));
                rec.form("be", || bytesv(&x.to_radix_be(radix)));
                rec.form("le", || bytesv(&x.to_radix_le(radix)));
                if radix >= 2 && radix <= 36 {
                    rec.form("str_roundtrip", || parse_out(Self::from_str_radix(&x.to_str_radix(radix), radix)));
                }
                if radix >= 2 && radix <= 256 {
                    rec.form("be_roundtrip", || opt(Self::from_radix_be(&x.to_radix_be(radix), radix)));
                    rec.form("le_roundtrip", || opt(Self::from_radix_le(&x.to_radix_le(radix), radix)));
                }
            }
        }
    )*};
}
text_impl!(BUint, BInt, BUintD32, BIntD32, BUintD16, BIntD16, BUintD8, BIntD8);

macro_rules! text_prim {
    ($($p:ident),*) => {$(
        impl Text for $p {
            fn parse_events(rec: &mut Rec, s: &[u8], radix: u32) {
                rec.sem = "C10";
                rec.fam("parse", vec![bytes(s), nat(radix as u128)]);
                if let Ok(st) = core::str::from_utf8(s) {
                    rec.form("from_str_radix", || std_parse_out(<$p>::from_str_radix(st, radix)));
                    if radix == 10 {
                        rec.form("from_str", || std_parse_out(<$p as FromStr>::from_str(st)));
                    }
                }
            }
            fn from_radix_events(_rec: &mut Rec, _ds: &[u8], _radix: u32) {}
            fn to_radix_events(_rec: &mut Rec, _x: Self, _radix: u32) {}
        }
    )*};
}
text_prim!(u8, u16, u32, u64, u128, i8, i16, i32, i64, i128);

// ----------------------------------------------------------------------------------------------
// numerals

fn digit_char(d: u8, upper: bool) -> u8 {
    if d < 10 {
        b'0' + d
    } else if upper {
        b'A' + d - 10
    } else {
        b'a' + d - 10
    }
}
/// digits (most significant first) of an unsigned magnitude in the given radix
fn to_digits(mag: &B, radix: u32) -> Vec<u8> {
    let mut a = gen::trim(mag.clone());
    let mut out = Vec::new();
    if a.is_empty() {
        return vec![0];
    }
    while !a.is_empty() {
        let mut rem: u32 = 0;
        for i in (0..a.len()).rev() {
            let t = (rem << 8) | a[i] as u32;
            a[i] = (t / radix) as u8;
            rem = t % radix;
        }
        out.push(rem as u8);
        a = gen::trim(a);
    }
    out.reverse();
    out
}

fn parse_inputs(r: &mut Rng, n: usize, signed: bool, radix: u32, count: usize) -> Vec<Vec<u8>> {
    let mut v: Vec<Vec<u8>> = Vec::new();
    let w = 8 * n;
    // magnitudes around the representability bounds
    let one = gen::small(n + 1, 1);
    let max_u = gen::fit(&gen::ones(n), n + 1);
    let max_s = gen::fit(&gen::smax(n), n + 1);
    let min_s = gen::fit(&gen::smin(n), n + 1);
    let mut mags: Vec<B> = vec![gen::zero(n + 1), one.clone(), gen::small(n + 1, radix as u64 - 1), gen::small(n + 1, radix as u64)];
    if signed {
        mags.extend([max_s.clone(), gen::add1(&max_s), gen::add1(&min_s), gen::sub1(&max_s)]);
        // the signed parser sits on the unsigned one: magnitudes around 2^BITS matter too
        mags.extend([max_u.clone(), gen::add1(&max_u), gen::add1(&gen::add1(&max_u))]);
    } else {
        mags.extend([max_u.clone(), gen::add1(&max_u), gen::sub1(&max_u)]);
    }
    mags.push(gen::fit(&gen::short(r, n), n + 1));
    mags.push(gen::fit(&gen::extreme(r, n), n + 1));
    // radix^k and neighbours near capacity
    let cap_digits = to_digits(&gen::ones(n), radix).len();
    for m in mags.iter() {
        let ds = to_digits(m, radix);
        for sign in ["", "+", "-"] {
            for zeros in [0usize, 1, 2, cap_digits, 2 * cap_digits + 1] {
                if v.len() > 3 * count && r.below(3) != 0 {
                    continue;
                }
                let upper = r.below(3) == 0;
                let mut s: Vec<u8> = sign.as_bytes().to_vec();
                s.extend(std::iter::repeat(b'0').take(zeros));
                s.extend(ds.iter().map(|d| digit_char(*d, upper)));
                v.push(s);
            }
        }
    }
    // mutations: an invalid character somewhere
    // includes the characters adjacent to the digit and letter ranges in ASCII
    let bad: [&[u8]; 20] = [b" ", b"_", b"+", b"-", "é".as_bytes(), b"z", b"Z", b".", b"\x00", b"\xff", b"/", b":", b";", b"?", b"@", b"[", b"`", b"{", b"\x7f", b"\x80"];
    let base = v.clone();
    for _ in 0..(count / 2).max(6) {
        let mut s = r.pick(&base).clone();
        let pos = r.below(s.len() as u64 + 1) as usize;
        let ins: Vec<u8> = match r.below(5) {
            0 => vec![digit_char(radix.min(35) as u8, r.below(2) == 0)], // the digit equal to the radix (invalid unless radix 36)
            1 => {
                // bytes that turn into a valid digit under a masking slip (table lookups indexed with `& 0x7f`,
                // case folding with `| 0x20` / `& !0x20` applied to non-letters): a valid digit character with
                // bit 7 set, with bit 5 cleared/set, and two-byte UTF-8 characters whose bytes both alias to digits
                let d = digit_char(r.below(radix.min(36) as u64) as u8, r.below(2) == 0);
                match r.below(4) {
                    0 => vec![d | 0x80],
                    1 => vec![if d.is_ascii_digit() { d & !0x20 } else { d ^ 0x40 }],
                    2 => vec![0xc2, 0xb0 + (r.below(radix.min(10) as u64) as u8)],          // U+00B0..U+00B9: bytes alias to 'B', '0'..'9'
                    _ => vec![0xc3, 0xb0 + (r.below(radix.min(10) as u64) as u8)],          // U+00F0..U+00F9: bytes alias to 'C', '0'..'9'
                }
            }
            _ => r.pick(&bad).to_vec(),
        };
        if r.below(2) == 0 && pos < s.len() {
            s.splice(pos..pos + 1, ins);
        } else {
            s.splice(pos..pos, ins);
        }
        v.push(s);
    }
    // numerals that overflow well before their end, with an invalid character at several distances after the
    // overflow point (which error is reported may depend on how far the parser reads ahead)
    {
        let top = digit_char((radix.min(36) - 1) as u8, false);
        let long: Vec<u8> = std::iter::repeat(top).take(cap_digits + 8).collect();
        v.push(long.clone());
        for (pos, sign) in [(cap_digits + 1, ""), (cap_digits + 4, "-"), (cap_digits + 8, "+"), (cap_digits + 8, "")] {
            let mut s2: Vec<u8> = sign.as_bytes().to_vec();
            s2.extend(&long[..pos]);
            s2.push(*r.pick(&[b'x', b' ', b'_', b'~']));
            s2.extend(&long[pos..]);
            v.push(s2);
        }
    }
    // a sign after leading zeros, in the middle, at the end
    v.extend([b"0+1".to_vec(), b"00-1".to_vec(), b"0+0".to_vec(), b"1+1".to_vec(), b"1-".to_vec(), b"0-".to_vec(), b"000000000+1".to_vec(), b"0000000000000000000000000000000000000000-1".to_vec()]);
    v.extend([b"".to_vec(), b"+".to_vec(), b"-".to_vec(), b"+-1".to_vec(), b"--1".to_vec(), b"-+1".to_vec(), b" 1".to_vec(), b"1 ".to_vec(), b"0x10".to_vec(), b"-0".to_vec(), b"+0".to_vec(), b"00".to_vec(), b"-".to_vec()]);
    // shuffle-ish subsample
    let mut outv = Vec::new();
    let keep = count + 26;
    let total = v.len();
    for (i, s) in v.into_iter().enumerate() {
        if total <= keep || i + 26 >= total || r.below(total as u64) < keep as u64 {
            outv.push(s);
        }
    }
    outv
}

fn radix_digit_inputs(r: &mut Rng, n: usize, radix: u32, count: usize) -> Vec<Vec<u8>> {
    let mut v: Vec<Vec<u8>> = Vec::new();
    let max_u = gen::fit(&gen::ones(n), n + 1);
    let mags = [gen::zero(n + 1), gen::small(n + 1, 1), max_u.clone(), gen::add1(&max_u), gen::sub1(&max_u), gen::fit(&gen::smin(n), n + 1), gen::fit(&gen::short(r, n), n + 1), gen::fit(&gen::extreme(r, n), n + 1), gen::fit(&gen::random(r, n), n + 1)];
    let cap_digits = to_digits(&gen::ones(n), radix).len();
    for m in mags.iter() {
        let ds = to_digits(m, radix);
        for zeros in [0usize, 1, cap_digits, cap_digits + 3] {
            let mut s: Vec<u8> = vec![0; zeros];
            s.extend(ds.iter());
            v.push(s);
        }
    }
    let base = v.clone();
    for _ in 0..(count / 3).max(4) {
        let mut s = r.pick(&base).clone();
        if s.is_empty() || radix == 256 {
            continue;
        }
        let pos = r.below(s.len() as u64) as usize;
        s[pos] = match r.below(3) {
            0 => radix as u8,
            1 => 255,
            _ => (radix + r.below(256 - radix as u64) as u32) as u8,
        };
        v.push(s);
    }
    v.push(vec![]);
    v.truncate(count.max(20));
    // over-long digit strings that are NOT just zero padding: a single non-zero digit placed 1 .. 2*8+2 places above
    // the capacity, zeros between it and a representable value part (excess checks that look at the first excess
    // digit only, or only at whole machine digits, accept these)
    let val_part = to_digits(&gen::fit(&gen::short(r, n), n + 1), radix);
    for above in [1usize, 2, 3, 4, 5, 8, 9, 16, 17] {
        if above > 5 && r.below(2) == 0 {
            continue;
        }
        let mut s2: Vec<u8> = vec![1 + r.below(radix.min(256) as u64 - 1) as u8];
        s2.extend(std::iter::repeat(0).take(cap_digits + above - 1 - val_part.len().min(cap_digits)));
        s2.extend(val_part.iter().take(cap_digits));
        v.push(s2);
    }
    v
}

fn radices_str(r: &mut Rng, thorough: bool) -> Vec<u32> {
    if thorough {
        let mut v: Vec<u32> = (2..=36).collect();
        v.extend([0, 1, 37, 256, u32::MAX]);
        v
    } else {
        let mut v = vec![2, 4, 8, 10, 16, 32, 36, 3, 7];
        v.push(2 + r.below(35) as u32);
        v.push(2 + r.below(35) as u32);
        v.push(*r.pick(&[0u32, 1, 37, 257]));
        v.sort();
        v.dedup();
        v
    }
}
fn radices_digits(r: &mut Rng, thorough: bool) -> Vec<u32> {
    if thorough {
        let mut v: Vec<u32> = (2..=256).collect();
        v.extend([0, 1, 257, 1000]);
        v
    } else {
        let mut v = vec![2, 4, 8, 16, 32, 64, 128, 256, 10, 100, 255, 3, 36, 85];
        for _ in 0..4 {
            v.push(2 + r.below(255) as u32);
        }
        v.push(*r.pick(&[0u32, 1, 257]));
        v.sort();
        v.dedup();
        v
    }
}

fn to_radix_values(r: &mut Rng, n: usize, radix: u32, count: usize) -> Vec<B> {
    let mut v = vec![gen::zero(n), gen::small(n, 1), gen::ones(n), gen::smin(n), gen::smax(n), gen::small(n, radix.max(2) as u64 - 1), gen::small(n, radix as u64 & 0xffff_ffff)];
    // interior zero chunks: a * radix^j + b, and powers of two
    if radix >= 2 && radix <= 256 {
        let rb = gen::trim(gen::small(8, radix as u64));
        for _ in 0..3 {
            let j = 1 + r.below((8 * n) as u64 / 2) as u32;
            let (p, ov) = gen::upow(&gen::fit(&rb, n), j.min(300), n);
            if !ov {
                let a = gen::small(n, 1 + r.below(radix as u64 - 1).max(1));
                let prod = gen::umul(&gen::trim(p.clone()), &gen::trim(a));
                let mut x = gen::fit(&prod, n);
                if prod.len() <= n || prod[n..].iter().all(|b| *b == 0) {
                    v.push(x.clone());
                    x = gen::add1(&x);
                    v.push(x);
                }
            }
        }
    }
    v.push(gen::pow2(n, r.below((8 * n) as u64) as usize));
    if radix >= 2 && radix <= 256 {
        let rb = gen::fit(&gen::trim(gen::small(8, radix as u64)), n);
        // exact powers radix^j at the chunk sizes of every digit type: the largest power fitting a digit and half a digit
        // (for 8/16/32/64/128-bit chunks), their doubles, and one random exponent
        let mut js: Vec<u32> = Vec::new();
        for bits in [4u32, 8, 16, 32, 64, 128] {
            let mut p: u128 = 1;
            let mut j = 0u32;
            while p.checked_mul(radix as u128).map_or(false, |q| bits == 128 || q < (1u128 << bits)) {
                p *= radix as u128;
                j += 1;
            }
            js.extend([j, 2 * j, j + 1, 3 * j]);
        }
        js.push(1 + r.below((8 * n) as u64) as u32);
        js.sort();
        js.dedup();
        if count < 30 {
            // quick tier: a random third of the exponents per (type, radix)
            js.retain(|_| r.below(3) == 0);
        }
        // decimal always, and one rotating other radix per run: every exponent up to capacity
        let rot = [3u32, 7, 36, 100, 255, 5, 12][(r.0 % 7) as usize];
        if radix == 10 || (radix == rot && n >= 8 && n <= 128) {
            let mut j = 1u32;
            let mut p = rb.clone();
            loop {
                js.push(j);
                let q = gen::umul(&gen::trim(p.clone()), &gen::trim(rb.clone()));
                if gen::trim(q.clone()).len() > n {
                    break;
                }
                p = gen::fit(&gen::trim(q), n);
                j += 1;
            }
            js.sort();
            js.dedup();
        }
        // powers computed incrementally: pows[j] = radix^j while it fits
        let jmax = js.iter().copied().max().unwrap_or(0);
        let mut pows: Vec<B> = vec![gen::small(n, 1)];
        {
            let rt = gen::trim(rb.clone());
            while (pows.len() as u32) <= jmax {
                let q = gen::umul(&gen::trim(pows.last().unwrap().clone()), &rt);
                if gen::trim(q.clone()).len() > n {
                    break;
                }
                pows.push(gen::fit(&gen::trim(q), n));
            }
        }
        for j in js {
            if j == 0 || (j as usize) >= pows.len() {
                continue;
            }
            let p = pows[j as usize].clone();
            {
                v.push(p.clone());
                v.push(gen::add1(&p));
                v.push(gen::sub1(&p));
                // a small multiple: a * radix^j
                let prod = gen::umul(&gen::trim(p.clone()), &gen::trim(gen::small(n.max(2), 1 + r.below(radix as u64 - 1).max(1))));
                if gen::trim(prod.clone()).len() <= n {
                    v.push(gen::fit(&gen::trim(prod), n));
                }
            }
        }
        // a digit equal to the chunk base radix^power sitting above other digits (quotient-digit == divisor ties)
        for g in [1usize, 2, 4, 8] {
            if 2 * g > n {
                continue;
            }
            for half in [true, false] {
                let bits = if half { 4 * g as u32 } else { 8 * g as u32 };
                let mut p: u128 = 1;
                while p.checked_mul(radix as u128).map_or(false, |q| q < (1u128 << bits)) {
                    p *= radix as u128;
                }
                let k = 1 + r.below((n / g - 1) as u64) as usize; // digit position >= 1
                let mut x = gen::random(r, n);
                for b in x.iter_mut().skip(k * g) {
                    *b = 0;
                }
                let pb = p.to_le_bytes();
                for t in 0..g {
                    x[k * g + t] = pb[t];
                }
                v.push(x.clone());
                // and with zeros below it
                for b in x.iter_mut().take(k * g) {
                    *b = 0;
                }
                v.push(x);
            }
        }
    }
    let bnd = gen::boundary(n);
    let count = count.max(v.len() + 4);
    while v.len() < count {
        v.push(gen::any(r, n, &bnd));
    }
    v
}

// ----------------------------------------------------------------------------------------------
// formatting

fn fmt_events<T: Text>(rec: &mut Rec, r: &mut Rng, x: T, per_value: usize) {
    let o = Obj { d: &x, g: &x, b: &x, o: &x, x: &x, ux: &x, e: &x, ue: &x };
    rec.sem = "C12";
    // lengths computed by the harness itself (never by the library under test)
    let pat = x.enc();
    let (neg, mag) = gen::to_sm(&pat, T::S);
    let natural = to_digits(&mag, 10).len() + neg as usize;
    let hexlen = to_digits(&pat, 16).len();
    for _ in 0..per_value {
        let id = r.below(SPECS.len() as u64) as usize;
        let sp = SPECS[id];
        let base = match sp.tr {
            "Display" | "Debug" | "LowerExp" | "UpperExp" => natural,
            "Binary" => T::W as usize,
            _ => hexlen,
        };
        let w: usize = match r.below(8) {
            0 => 0,
            1 => 1,
            2 => base.saturating_sub(1),
            3 => base,
            4 => base + 1,
            5 => base + 7,
            6 => 255,
            _ => base + r.below(12) as usize,
        };
        let warg = if sp.has_width { snat(w as i128) } else { Arg::SNat(true, vec![1]) };
        rec.ev(
            "fmt",
            vec![int(&x), tag(sp.tr), boolean(sp.plus), boolean(sp.alt), boolean(sp.zero), bytes(sp.fill.as_bytes()), tag(sp.align), warg],
            || bytesv(fmtgen::render(id, &o, w).as_bytes()),
        );
    }
}

fn fmt_values(r: &mut Rng, n: usize, count: usize) -> Vec<B> {
    let mut v = vec![gen::zero(n), gen::small(n, 1), gen::ones(n), gen::smin(n), gen::smax(n), gen::small(n, 10), gen::small(n, 100), gen::small(n, 1200), gen::negate(&gen::small(n, 1200)), gen::small(n, 9)];
    // interior zero digits / leading-zero nibbles at every granularity; d * 10^k values for the exponent forms
    for g in [1usize, 2, 4, 8] {
        if g < n {
            let mut x = gen::random(r, n);
            let k = r.below((n / g) as u64) as usize;
            for j in 0..g {
                x[k * g + j] = 0;
            }
            v.push(x.clone());
            x[k * g] = (r.below(15) + 1) as u8; // a digit with leading zero nibbles
            v.push(x);
        }
    }
    let ten = vec![10u8];
    let mut p = gen::small(n, 1 + r.below(9));
    for _ in 0..(r.below((2 * n) as u64 + 1)) {
        let q = gen::umul(&p, &ten);
        if q[n..].iter().any(|b| *b != 0) || q[n - 1] & 0x80 != 0 {
            break;
        }
        p = q[..n].to_vec();
    }
    v.push(p.clone());
    v.push(gen::negate(&p));
    // bounds of the primitive integers (fast paths through u64 / u128) and decimal chunk boundaries 10^19, 10^38
    for k in [64usize, 128] {
        if k < 8 * n {
            let q = gen::pow2(n, k);
            v.push(gen::sub1(&q));
            v.push(q.clone());
            v.push(gen::add1(&gen::add1(&gen::add1(&gen::add1(&gen::add1(&q))))));
            if r.below(2) == 0 {
                v.push(gen::negate(&q));
            }
        }
    }
    // a digit equal to 10^9 / 10^4 / 10^2 / 10 (the decimal chunk bases of u64/u32/u16/u8 digits) above other digits
    // ... and, whatever the digit type, the largest power of ten that fits a whole 8/16/32/64/128-bit limb (10^2, 10^4,
    // 10^9, 10^19, 10^38): a rewrite of the decimal conversion that works on limbs of another size ties there
    for (g, base) in [(8usize, 1_000_000_000u128), (4, 10_000), (2, 100), (1, 10),
                      (16, 100_000_000_000_000_000_000_000_000_000_000_000_000u128), (8, 10_000_000_000_000_000_000), (4, 1_000_000_000), (2, 10_000), (1, 100)] {
        if 2 * g <= n {
            let k = 1 + r.below((n / g - 1) as u64) as usize;
            let mut x = gen::random(r, n);
            for b in x.iter_mut().skip(k * g) {
                *b = 0;
            }
            let pb = base.to_le_bytes();
            for t in 0..g {
                x[k * g + t] = pb[t];
            }
            if x[n - 1] & 0x80 == 0 {
                v.push(x);
            }
        }
    }
    for j in [19u32, 38, 9, 18] {
        let (q, ov) = gen::upow(&gen::small(n, 10), j, n);
        if !ov && q[n - 1] & 0x80 == 0 && r.below(2) == 0 {
            v.push(gen::sub1(&q));
            v.push(q.clone());
            let m = gen::umul(&gen::trim(q), &gen::trim(gen::small(n.max(2), 2 + r.below(7))));
            if gen::trim(m.clone()).len() <= n {
                v.push(gen::fit(&gen::trim(m), n));
            }
        }
    }
    let bnd = gen::boundary(n);
    let count = count.max(v.len() + 3);
    while v.len() < count {
        v.push(gen::any(r, n, &bnd));
    }
    v
}

// ----------------------------------------------------------------------------------------------

fn run_type<T: Text>(rec: &mut Rec, prop: &str, seed: u64, thorough: bool) {
    let n = (T::W / 8) as usize;
    let mut r = Rng::new(seed ^ ((T::W as u64) << 34) ^ (T::S as u64) << 3 ^ (prop.as_bytes()[2] as u64 * 977));
    // long numerals cost TLC a Horner step per character: fewer cases for very wide types
    let scale = |q: usize, t: usize| -> usize {
        let b = if thorough { t } else { q };
        if n >= 64 {
            (b / 3).max(4)
        } else {
            b
        }
    };
    if n > 128 {
        // the 2080- and 8192-bit types: decimal plus two other radices, exact-power sweeps, a few numerals
        match prop {
            "C10" => {
                for radix in [10u32, 16, 7] {
                    for s in parse_inputs(&mut r, n, T::S, radix, 3) {
                        T::parse_events(rec, &s, radix);
                    }
                }
            }
            "C11" => {
                let rot = [3u32, 7, 36, 100, 255, 5, 12][(r.0 % 7) as usize];
                for radix in [10u32, rot, 256, 8] {
                    let vals = to_radix_values(&mut r, n, radix, 4);
                    // these conversions cost the library itself ~0.1-0.4 s each in an unoptimised build
                    let keep: usize = if n <= 300 { if thorough { 1 } else { 5 } } else if thorough { 8 } else { 60 };
                    let off = (seed as usize) % keep;
                    for (k, b) in vals.into_iter().enumerate() {
                        if k % keep == off || k < 3 {
                            T::to_radix_events(rec, T::dec(&b), radix);
                        }
                    }
                }
            }
            "C12" => {
                for b in fmt_values(&mut r, n, 6) {
                    fmt_events(rec, &mut r, T::dec(&b), 4);
                }
                let step = if thorough { 1 } else if n <= 300 { 5 } else { 40 };
                let off = (seed % step as u64) as u32;
                let ten = vec![10u8];
                let mut p = gen::small(n, 1);
                let mut k = 0u32;
                loop {
                    if k % step == off {
                        fmt_events(rec, &mut r, T::dec(&p), 2);
                    }
                    let q = gen::umul(&gen::trim(p.clone()), &ten);
                    if gen::trim(q.clone()).len() > n || (q.len() >= n && q[n - 1] & 0x80 != 0) {
                        break;
                    }
                    p = gen::fit(&gen::trim(q), n);
                    k += 1;
                }
            }
            _ => panic!("unknown property"),
        }
        return;
    }
    if thorough && n == 1 {
        // thorough tier: the 8-bit types completely -- every value in every radix, and the numerals of every
        // magnitude 0..=300 (all representable values and the first unrepresentable ones) with every sign prefix
        let all: Vec<B> = (0..=255u8).map(|v| vec![v]).collect();
        match prop {
            "C10" => {
                for radix in 2..=36u32 {
                    for m in 0..=300u32 {
                        let ds: Vec<u8> = to_digits(&vec![m as u8, (m >> 8) as u8], radix).into_iter().map(|d| digit_char(d, m % 2 == 0)).collect();
                        for pre in [&b""[..], b"+", b"-", b"0", b"-0", b"+00"] {
                            let mut sv = pre.to_vec();
                            sv.extend(&ds);
                            T::parse_events(rec, &sv, radix);
                        }
                    }
                }
                for radix in 2..=256u32 {
                    for m in (0..=300u32).step_by(if radix <= 36 { 1 } else { 7 }) {
                        let ds = to_digits(&vec![m as u8, (m >> 8) as u8], radix);
                        T::from_radix_events(rec, &ds, radix);
                    }
                }
            }
            "C11" => {
                for radix in 2..=256u32 {
                    for b in all.iter() {
                        T::to_radix_events(rec, T::dec(b), radix);
                    }
                }
            }
            "C12" => {
                for b in all.iter() {
                    fmt_events(rec, &mut r, T::dec(b), 40);
                }
            }
            _ => panic!("unknown property"),
        }
        return;
    }
    match prop {
        "C10" => {
            for radix in radices_str(&mut r, thorough) {
                let cnt = scale(14, 60);
                let strs = if radix >= 2 && radix <= 36 { parse_inputs(&mut r, n, T::S, radix, cnt) } else { vec![b"1".to_vec(), b"".to_vec(), b"z".to_vec()] };
                for s in strs {
                    T::parse_events(rec, &s, radix);
                }
            }
            for radix in radices_digits(&mut r, thorough) {
                let cnt = scale(12, 40);
                let dss = if radix >= 2 && radix <= 256 { radix_digit_inputs(&mut r, n, radix, cnt) } else { vec![vec![1u8], vec![]] };
                for ds in dss {
                    T::from_radix_events(rec, &ds, radix);
                }
            }
        }
        "C11" => {
            let mut rs = radices_digits(&mut r, thorough);
            rs.extend(radices_str(&mut r, thorough));
            if !thorough {
                // every string radix gets at least the boundary values over a few runs; here a rotating third
                for q in 2..=36u32 {
                    if (q + seed as u32) % 3 == 0 {
                        rs.push(q);
                    }
                }
            }
            rs.sort();
            rs.dedup();
            for radix in rs {
                for b in to_radix_values(&mut r, n, radix, scale(9, 40)) {
                    T::to_radix_events(rec, T::dec(&b), radix);
                }
            }
        }
        "C12" => {
            for b in fmt_values(&mut r, n, scale(16, 60)) {
                fmt_events(rec, &mut r, T::dec(&b), if thorough { 120 } else { 24 });
            }
            // wide types: powers of ten over the whole width (decimal digit-count estimates), a few formats each
            if n >= 64 {
                let step = if thorough { 1 } else { 4 };
                let off = (seed % step as u64) as u32;
                let ten = vec![10u8];
                let mut p = gen::small(n, 1);
                let mut k = 0u32;
                loop {
                    if k % step == off {
                        fmt_events(rec, &mut r, T::dec(&p), 3);
                        fmt_events(rec, &mut r, T::dec(&gen::sub1(&p)), 2);
                    }
                    let q = gen::umul(&gen::trim(p.clone()), &ten);
                    if gen::trim(q.clone()).len() > n || (q.len() >= n && q[n - 1] & 0x80 != 0) {
                        break;
                    }
                    p = gen::fit(&gen::trim(q), n);
                    k += 1;
                }
            }
        }
        _ => panic!("unknown property"),
    }
}

struct Ctx {
    cli: Cli,
    sink: Sink,
}
thread_local! {
    static CTX: std::cell::RefCell<Option<Ctx>> = std::cell::RefCell::new(None);
}

macro_rules! run_all {
    (@go $imp:literal, $w:literal; $(($U:ty, $I:ty)),+) => {
        CTX.with(|c| {
            let mut c = c.borrow_mut();
            let c = c.as_mut().unwrap();
            if c.cli.only_width.map_or(true, |x| x == $w) {
                let thorough = c.cli.tier == "thorough";
                let mut us: Vec<(&'static str, Rec)> = Vec::new();
                let mut is: Vec<(&'static str, Rec)> = Vec::new();
                $(
                    {
                        let mut ru = Rec::new();
                        let mut ri = Rec::new();
                        run_type::<$U>(&mut ru, &c.cli.prop, c.cli.seed, thorough);
                        run_type::<$I>(&mut ri, &c.cli.prop, c.cli.seed, thorough);
                        us.push((<$U as Bn>::DT, ru));
                        is.push((<$I as Bn>::DT, ri));
                    }
                )+
                c.sink.merge($w, false, $imp, us);
                c.sink.merge($w, true, $imp, is);
            }
        });
    };
}
macro_rules! run_bnum {
    ($w:literal; $(($U:ty, $I:ty)),+) => { run_all!(@go "bnum", $w; $(($U, $I)),+); };
}
macro_rules! run_prim {
    ($w:literal; $(($U:ty, $I:ty)),+) => { run_all!(@go "prim", $w; $(($U, $I)),+); };
}

fn main() {
    install_hook();
    let cli = parse_cli();
    let prop = cli.prop.clone();
    let sink = Sink::new(&cli.out, &prop);
    let prims = cli.extra.iter().any(|x| x == "--prims");
    CTX.with(|c| *c.borrow_mut() = Some(Ctx { cli, sink }));
    if prims {
        for_prims!(run_prim);
    } else {
        the_matrix!(run_bnum);
        the_giants!(run_bnum);
    }
    let ctx = CTX.with(|c| c.borrow_mut().take().unwrap());
    let (n, splits) = ctx.sink.finish();
    eprintln!("recorded {} events, {} digit-type splits, mode {}", n, splits, MODE);
}
