// body of the `conv` recorder, included by src/bin/conv.rs (the matrix of DESIGN.md 5.1) and by src/bin/conv_s<k>.rs
// (chunk k of the width sweep); `the_matrix!` and `the_giants!` are defined by the including file.

use bnum::cast::{As, CastFrom};
use bnum::BTryFrom;
use bnum_verif_harness::gen::{self, Rng, B};
use bnum_verif_harness::*;

fn label<T: Bn>() -> &'static str {
    Box::leak(format!("{}x{}", T::DT, T::W).into_boxed_str())
}

fn res<T: Bn, E>(r: Result<T, E>) -> Out {
    match r {
        Ok(v) => Out::Ok_(v.enc()),
        Err(_) => Out::Err_("TryFromIntError".to_string()),
    }
}

struct Ctx {
    cli: Cli,
    sink: Sink,
}
thread_local! {
    static CTX: std::cell::RefCell<Option<Ctx>> = std::cell::RefCell::new(None);
}
fn with_ctx<F: FnOnce(&mut Ctx)>(f: F) {
    CTX.with(|c| f(c.borrow_mut().as_mut().unwrap()))
}

/// source values for a (source width, target type) pair: boundary values of the source, the target's
/// MIN/MAX and their neighbours embedded in the source width, sign-extension patterns, random
fn pair_values(r: &mut Rng, sn: usize, dw: u32, count: usize) -> Vec<B> {
    let mut v: Vec<B> = Vec::new();
    let sw = 8 * sn;
    if count >= 40 && sn == 1 {
        // thorough tier: every value of an 8-bit source
        return (0..=255u8).map(|x| vec![x]).collect();
    }
    v.push(gen::zero(sn));
    v.push(gen::small(sn, 1));
    v.push(gen::ones(sn));
    v.push(gen::smin(sn));
    v.push(gen::smax(sn));
    let dw = dw as usize;
    for k in [dw, dw - 1] {
        if k < sw {
            let p = gen::pow2(sn, k);
            v.push(p.clone()); // MAX + 1 of the target
            v.push(gen::sub1(&p)); // MAX of the target
            v.push(gen::negate(&p)); // MIN of the signed target (k = dw - 1)
            v.push(gen::sub1(&gen::negate(&p))); // MIN - 1
            v.push(gen::add1(&gen::negate(&p)));
            v.push(gen::add1(&p));
        }
    }
    // sparse digit patterns: a small low digit under upper digits that are all equal (1, MAX, sign bit only, 2^8),
    // at every digit granularity -- representability tests that fold or combine the upper digits
    for g in [1usize, 2, 4, 8] {
        if 2 * g <= sn && (count >= 40 || r.below(2) == 0) {
            let mut ds: Vec<Vec<u8>> = vec![{ let mut d = vec![0u8; g]; d[0] = 1; d }, vec![0xff; g], { let mut d = vec![0u8; g]; d[g - 1] = 0x80; d }];
            // upper digits that are multiples of 2^8, 2^16, 2^32 (zero when truncated to a narrower primitive),
            // and their complements (equal to sign padding in the low bits only)
            for j in [1usize, 2, 4] {
                if g > j {
                    let mut d = vec![0u8; g];
                    d[j] = 1;
                    ds.push(d.clone());
                    ds.push(d.iter().map(|b| !b).collect());
                }
            }
            for d in ds {
                for upto in [sn / g, 3.min(sn / g)] {
                    let mut x = vec![0u8; sn];
                    x[0] = 5;
                    for k in 1..upto {
                        x[k * g..(k + 1) * g].copy_from_slice(&d);
                    }
                    v.push(x);
                }
            }
        }
    }
    // bounds of the primitive integers inside the source (boundaries of fast paths through primitives):
    // +-2^k and neighbours for k at the primitive widths; a random half of them in the quick tier
    for k in [7usize, 8, 15, 16, 31, 32, 63, 64, 127, 128] {
        if k + 1 < sw && (count >= 40 || r.below(2) == 0) {
            let p = gen::pow2(sn, k);
            v.push(p.clone());
            v.push(gen::sub1(&p));
            v.push(gen::negate(&p));
            v.push(gen::sub1(&gen::negate(&p)));
            v.push(gen::add1(&gen::negate(&p)));
        }
    }
    // the extremes of narrower digit types as whole digits of the source (constants / masks of the wrong digit type):
    // systematically the all-ones value of every narrower digit width as one non-top digit of the source at every wider
    // granularity, lowest and highest non-top position, either sign, the other digits random; plus mixed draws
    for g in [2usize, 4, 8] {
        if 2 * g > sn {
            continue;
        }
        let nd = sn / g;
        for j in [1usize, 2, 4] {
            if j >= g {
                continue;
            }
            for pos in [0usize, nd - 2] {
                for neg in [false, true] {
                    if count < 40 && r.below(2) == 0 {
                        continue;
                    }
                    let mut x = gen::random(r, sn);
                    for t in 0..g {
                        x[pos * g + t] = if t < j { 0xff } else { 0 };
                    }
                    if neg {
                        x[sn - 1] |= 0x80;
                    } else {
                        x[sn - 1] &= 0x7f;
                    }
                    v.push(x);
                }
            }
        }
    }
    for _ in 0..(if count >= 40 { 12 } else { 4 }) {
        v.push(gen::narrow_in_wide(r, sn));
    }
    let bnd = gen::boundary(sn);
    let count = count.max(v.len() + 3);
    while v.len() < count {
        v.push(gen::any(r, sn, &bnd));
    }
    v.sort();
    v.dedup();
    v
}

// ----------------------------------------------------------------------------------------------
// bnum x bnum pairs

fn pair_fn<S, D>()
where
    S: Bn,
    D: Bn + CastFrom<S> + BTryFrom<S>,
{
    with_ctx(|c| {
        if !c.cli.only_width.map_or(true, |x| x == S::W) {
            return;
        }
        let thorough = c.cli.tier == "thorough";
        let prop = c.cli.prop.clone();
        let sn = (S::W / 8) as usize;
        let mut r = Rng::new(c.cli.seed ^ ((S::W as u64) << 40) ^ ((D::W as u64) << 20) ^ (S::S as u64) << 1 ^ (D::S as u64));
        let vals = pair_values(&mut r, sn, D::W, if thorough { 60 } else { 14 });
        let mut rec = Rec::new();
        let ty = Arg::Int { w: D::W, s: D::S, v: vec![] };
        for b in vals.iter() {
            let x = S::dec(b);
            if prop == "C09" || prop == "C16" {
                rec.sem = "C09";
                rec.fam("as", vec![int(&x), ty.clone()]);
                rec.form("as_", || val(As::as_::<D>(x)));
                rec.form("cast_from", || val(<D as CastFrom<S>>::cast_from(x)));
            }
            if prop == "C13" {
                rec.sem = "C13";
                rec.ev("btryfrom", vec![int(&x), ty.clone()], || res(<D as BTryFrom<S>>::try_from(x)));
            }
        }
        let lab: &'static str = Box::leak(format!("{}>{}", label::<S>(), label::<D>()).into_boxed_str());
        c.sink.merge(S::W, S::S, "bnum", vec![(lab, rec)]);
    });
}
/// num_traits::AsPrimitive between two bnum integers of one digit family (the impl exists per family only)
fn asprim_fn<S, D>()
where
    S: Bn + num_traits::AsPrimitive<D>,
    D: Bn + CastFrom<S> + Copy + 'static,
{
    with_ctx(|c| {
        if !c.cli.only_width.map_or(true, |x| x == S::W) {
            return;
        }
        let thorough = c.cli.tier == "thorough";
        let sn = (S::W / 8) as usize;
        let mut r = Rng::new(c.cli.seed ^ ((S::W as u64) << 41) ^ ((D::W as u64) << 21) ^ (S::S as u64) << 1 ^ (D::S as u64) ^ 0xA5);
        let vals = pair_values(&mut r, sn, D::W, if thorough { 60 } else { 14 });
        let mut rec = Rec::new();
        let ty = Arg::Int { w: D::W, s: D::S, v: vec![] };
        rec.sem = "C09";
        for b in vals.iter() {
            let x = S::dec(b);
            rec.fam("as", vec![int(&x), ty.clone()]);
            rec.form("asprimitive", || val(<S as num_traits::AsPrimitive<D>>::as_(x)));
            rec.form("cast_from", || val(<D as CastFrom<S>>::cast_from(x)));
        }
        let lab: &'static str = Box::leak(format!("{}>{}:asprim", label::<S>(), label::<D>()).into_boxed_str());
        c.sink.merge(S::W, S::S, "bnum", vec![(lab, rec)]);
    });
}
macro_rules! asprim_family {
    ($($U:ident, $I:ident);*) => {$(
        asprim_fn::<$U<1>, $U<3>>();
        asprim_fn::<$U<3>, $I<2>>();
        asprim_fn::<$I<2>, $U<5>>();
        asprim_fn::<$I<5>, $I<1>>();
        asprim_fn::<$U<4>, $I<4>>();
        asprim_fn::<$I<3>, $U<3>>();
        asprim_fn::<$I<1>, $I<9>>();
        asprim_fn::<$U<9>, $U<2>>();
    )*};
}
macro_rules! pair_body {
    ($S:ty, $D:ty) => {
        pair_fn::<$S, $D>();
    };
}

macro_rules! for_pairs {
    ($body:ident; [$($S:ty),*]; $D:tt) => { $( for_pairs!(@inner $body; $S; $D); )* };
    (@inner $body:ident; $S:ty; [$($D:ty),*]) => { $( $body!($S, $D); )* };
}

macro_rules! pair_types {
    ($mac:ident; $body:ident) => {
        $mac!($body;
            [BUintD8<1>, BIntD8<1>, BUintD8<2>, BIntD8<2>, BUintD16<1>, BIntD16<1>, BUintD8<3>, BIntD8<3>, BUintD16<2>, BIntD16<2>,
             BUintD32<1>, BIntD32<1>, BUintD8<5>, BIntD8<5>, BUintD16<3>, BIntD16<3>, BUint<1>, BInt<1>, BUintD32<2>, BIntD32<2>,
             BUintD8<9>, BIntD8<9>, BUintD32<3>, BIntD32<3>, BUint<2>, BInt<2>, BUintD8<17>, BIntD8<17>, BUintD16<9>, BIntD16<9>,
             BUintD32<5>, BIntD32<5>, BUint<3>, BInt<3>];
            [BUintD8<1>, BIntD8<1>, BUintD8<2>, BIntD8<2>, BUintD16<1>, BIntD16<1>, BUintD8<3>, BIntD8<3>, BUintD16<2>, BIntD16<2>,
             BUintD32<1>, BIntD32<1>, BUintD8<5>, BIntD8<5>, BUintD16<3>, BIntD16<3>, BUint<1>, BInt<1>, BUintD32<2>, BIntD32<2>,
             BUintD8<9>, BIntD8<9>, BUintD32<3>, BIntD32<3>, BUint<2>, BInt<2>, BUintD8<17>, BIntD8<17>, BUintD16<9>, BIntD16<9>,
             BUintD32<5>, BIntD32<5>, BUint<3>, BInt<3>]);
    };
}

// ----------------------------------------------------------------------------------------------
// bnum x primitive

macro_rules! prim_list {
    ($mac:ident; $($args:tt)*) => {
        $mac!($($args)*; u8, 8, false; u16, 16, false; u32, 32, false; u64, 64, false; u128, 128, false; usize, 64, false;
                         i8, 8, true; i16, 16, true; i32, 32, true; i64, 64, true; i128, 128, true; isize, 64, true);
    };
}

fn prim_enc_u(x: u128, w: u32) -> Vec<u8> {
    x.to_le_bytes()[..(w / 8) as usize].to_vec()
}

macro_rules! bnum_to_prims {
    ($rec:expr, $T:ty, $x:expr, $prop:expr; $($p:ident, $pw:literal, $ps:tt);*) => {
        $(
            {
                let x = $x;
                let ty = Arg::Int { w: $pw, s: $ps, v: vec![] };
                if $prop == "C09" {
                    $rec.sem = "C09";
                    $rec.fam("as", vec![int(&x), ty.clone(), tag(stringify!($p))]);
                    $rec.form("as_", || Out::Val(prim_enc_u(As::as_::<$p>(x) as u128, $pw)));
                }
                if $prop == "C13" {
                    $rec.sem = "C13";
                    $rec.ev("btryfrom", vec![int(&x), ty.clone(), tag(stringify!($p))], || match <$p as TryFrom<$T>>::try_from(x) {
                        Ok(v) => Out::Ok_(prim_enc_u(v as u128, $pw)),
                        Err(_) => Out::Err_("TryFromIntError".to_string()),
                    });
                }
            }
        )*
    };
}

macro_rules! prims_to_bnum {
    ($rec:expr, $T:ty, $r:expr, $prop:expr, $count:expr; $($p:ident, $pw:literal, $ps:tt);*) => {
        $(
            {
                let pn = ($pw / 8) as usize;
                let vals = pair_values($r, pn, <$T as Bn>::W, $count);
                let ty = Arg::Int { w: <$T as Bn>::W, s: <$T as Bn>::S, v: vec![] };
                for b in vals.iter() {
                    let mut full = [0u8; 16];
                    let ext = if $ps && b[pn - 1] & 0x80 != 0 { 0xffu8 } else { 0 };
                    for k in 0..16 {
                        full[k] = if k < pn { b[k] } else { ext };
                    }
                    let pv = u128::from_le_bytes(full) as $p;
                    let src = Arg::Int { w: $pw, s: $ps, v: b.clone() };
                    if $prop == "C09" {
                        $rec.sem = "C09";
                        $rec.fam("as", vec![src.clone(), ty.clone(), tag(stringify!($p))]);
                        $rec.form("as_", || val(As::as_::<$T>(pv)));
                        $rec.form("cast_from", || val(<$T as CastFrom<$p>>::cast_from(pv)));
                        $rec.form("asprimitive", || val(<$p as num_traits::AsPrimitive<$T>>::as_(pv)));
                    }
                    if $prop == "C13" && <$T as Bn>::W >= $pw {
                        $rec.sem = "C13";
                        prim_into!($rec, $T, $p, $ps, pv, src, ty);
                    }
                }
            }
        )*
    };
}

// From / TryFrom from a primitive into a bnum integer at least as wide
macro_rules! prim_into {
    ($rec:expr, $T:ty, $p:ident, false, $pv:expr, $src:expr, $ty:expr) => {
        // unsigned primitive: From<uN> exists for BUint and BInt; exercised when the value is representable
        {
            let fits = !<$T as Bn>::S || <$T as Bn>::W > <$p>::BITS || ($pv as u128) < (1u128 << (<$p>::BITS - 1));
            if fits {
                $rec.ev("from_prim", vec![$src.clone(), $ty.clone(), tag(stringify!($p))], || val(<$T as From<$p>>::from($pv)));
            }
        }
    };
    ($rec:expr, $T:ty, $p:ident, true, $pv:expr, $src:expr, $ty:expr) => {
        signed_prim_into!($rec, $T, $p, $pv, $src, $ty);
    };
}
trait SignedInto<P>: Sized {
    fn go(p: P) -> Out;
}
macro_rules! signed_into_impls {
    ($($p:ident),*) => {$(
        impl<const N: usize> SignedInto<$p> for BUint<N> { fn go(p: $p) -> Out { res(<Self as TryFrom<$p>>::try_from(p)) } }
        impl<const N: usize> SignedInto<$p> for BUintD32<N> { fn go(p: $p) -> Out { res(<Self as TryFrom<$p>>::try_from(p)) } }
        impl<const N: usize> SignedInto<$p> for BUintD16<N> { fn go(p: $p) -> Out { res(<Self as TryFrom<$p>>::try_from(p)) } }
        impl<const N: usize> SignedInto<$p> for BUintD8<N> { fn go(p: $p) -> Out { res(<Self as TryFrom<$p>>::try_from(p)) } }
        impl<const N: usize> SignedInto<$p> for BInt<N> { fn go(p: $p) -> Out { Out::Ok_(<Self as From<$p>>::from(p).enc()) } }
        impl<const N: usize> SignedInto<$p> for BIntD32<N> { fn go(p: $p) -> Out { Out::Ok_(<Self as From<$p>>::from(p).enc()) } }
        impl<const N: usize> SignedInto<$p> for BIntD16<N> { fn go(p: $p) -> Out { Out::Ok_(<Self as From<$p>>::from(p).enc()) } }
        impl<const N: usize> SignedInto<$p> for BIntD8<N> { fn go(p: $p) -> Out { Out::Ok_(<Self as From<$p>>::from(p).enc()) } }
    )*};
}
signed_into_impls!(i8, i16, i32, i64, i128, isize);
macro_rules! signed_prim_into {
    ($rec:expr, $T:ty, $p:ident, $pv:expr, $src:expr, $ty:expr) => {
        $rec.ev("tryfrom_prim", vec![$src.clone(), $ty.clone(), tag(stringify!($p))], || <$T as SignedInto<$p>>::go($pv));
    };
}

trait CharInto: Sized {
    fn go(c: char) -> Option<Out>;
}
macro_rules! char_into_impls {
    ($($U:ident, $I:ident);*) => {$(
        impl<const N: usize> CharInto for $U<N> { fn go(c: char) -> Option<Out> { Some(val(<Self as From<char>>::from(c))) } }
        impl<const N: usize> CharInto for $I<N> { fn go(_c: char) -> Option<Out> { None } }
    )*};
}
char_into_impls!(BUint, BInt; BUintD32, BIntD32; BUintD16, BIntD16; BUintD8, BIntD8);

macro_rules! prim_body_one {
    ($T:ty) => {
        with_ctx(|c| {
            let thorough = c.cli.tier == "thorough";
            let prop = c.cli.prop.clone();
            let n = (<$T as Bn>::W / 8) as usize;
            let mut r = Rng::new(c.cli.seed ^ ((<$T as Bn>::W as u64) << 33) ^ (<$T as Bn>::S as u64) ^ 0x9911);
            let mut rec = Rec::new();
            // bnum -> primitives
            let mut vals: Vec<B> = Vec::new();
            for dw in [8u32, 16, 32, 64, 128] {
                vals.extend(pair_values(&mut r, n, dw, 0));
            }
            let bnd = gen::boundary(n);
            for _ in 0..(if thorough { 40 } else { 6 }) {
                vals.push(gen::any(&mut r, n, &bnd));
            }
            vals.sort();
            vals.dedup();
            for b in vals.iter() {
                let x = <$T as Bn>::dec(b);
                prim_list!(bnum_to_prims; rec, $T, x, prop);
            }
            // primitives -> bnum
            prim_list!(prims_to_bnum; rec, $T, &mut r, prop, if thorough { 40 } else { 10 });
            // bool and char
            let ty = Arg::Int { w: <$T as Bn>::W, s: <$T as Bn>::S, v: vec![] };
            for bv in [false, true] {
                let src = Arg::Int { w: 8, s: false, v: vec![bv as u8] };
                if prop == "C09" {
                    rec.sem = "C09";
                    rec.fam("as", vec![src.clone(), ty.clone(), tag("bool")]);
                    rec.form("as_", || val(As::as_::<$T>(bv)));
                    rec.form("asprimitive", || val(<bool as num_traits::AsPrimitive<$T>>::as_(bv)));
                }
                if prop == "C13" {
                    rec.sem = "C13";
                    rec.ev("from_prim", vec![src.clone(), ty.clone(), tag("bool")], || val(<$T as From<bool>>::from(bv)));
                }
            }
            for cv in ['\0', 'a', '\u{7f}', '\u{80}', '\u{ff}', '\u{100}', 'é', '\u{ffff}', '\u{10000}', '\u{d7ff}', '\u{e000}', '\u{10ffff}', '\u{fffd}'] {
                let src = Arg::Int { w: 32, s: false, v: (cv as u32).to_le_bytes().to_vec() };
                if prop == "C09" {
                    rec.sem = "C09";
                    rec.fam("as", vec![src.clone(), ty.clone(), tag("char")]);
                    rec.form("as_", || val(As::as_::<$T>(cv)));
                    rec.form("asprimitive", || val(<char as num_traits::AsPrimitive<$T>>::as_(cv)));
                }
                if prop == "C13" && <$T as Bn>::W >= 32 {
                    rec.sem = "C13";
                    if let Some(_) = <$T as CharInto>::go('a') {
                        rec.ev("from_prim", vec![src.clone(), ty.clone(), tag("char")], || <$T as CharInto>::go(cv).unwrap());
                    }
                }
            }
            c.sink.merge(<$T as Bn>::W, <$T as Bn>::S, "bnum", vec![(label::<$T>(), rec)]);
        });
    };
}

// ----------------------------------------------------------------------------------------------
// per-type events: reinterpretation, digits, slices, endianness, constants

trait Digits: Bn {
    const DBYTES: usize;
    /// from_digits(ds), From<[digit; N]>, and the value composed from from_digit(d_i) << (i * digit bits)
    fn digit_events(rec: &mut Rec, b: &B);
}
macro_rules! digits_impl {
    ($U:ident, $I:ident, $D:ty) => {
        impl<const N: usize> Digits for $U<N> {
            const DBYTES: usize = core::mem::size_of::<$D>();
            fn digit_events(rec: &mut Rec, b: &B) {
                const SZ: usize = core::mem::size_of::<$D>();
                let mut ds = [0 as $D; N];
                for i in 0..N {
                    let mut x = [0u8; SZ];
                    x.copy_from_slice(&b[i * SZ..(i + 1) * SZ]);
                    ds[i] = <$D>::from_le_bytes(x);
                }
                rec.sem = "C13";
                rec.fam("from_digits", vec![bytes(b), nat(SZ as u128)]);
                rec.form("from_digits", || val(Self::from_digits(ds)));
                rec.form("from_array", || val(<Self as From<[$D; N]>>::from(ds)));
                rec.form("into_array", || {
                    let arr: [$D; N] = Self::from_digits(ds).into();
                    Out::Val(arr.iter().flat_map(|d| d.to_le_bytes()).collect())
                });
                rec.form("digits_mut", || {
                    let mut z = Self::ZERO;
                    for (i, d) in z.digits_mut().iter_mut().enumerate() {
                        *d = ds[i];
                    }
                    val(z)
                });
                rec.form("composed", || {
                    let mut acc = Self::ZERO;
                    for i in 0..N {
                        acc = acc | (Self::from_digit(ds[i]) << ((i * SZ * 8) as u32));
                    }
                    val(acc)
                });
                let d0 = ds[0];
                rec.ev("from_digit", vec![nat(d0 as u128)], || val(Self::from_digit(d0)));
            }
        }
        impl<const N: usize> Digits for $I<N> {
            const DBYTES: usize = core::mem::size_of::<$D>();
            fn digit_events(_rec: &mut Rec, _b: &B) {}
        }
    };
}
digits_impl!(BUint, BInt, u64);
digits_impl!(BUintD32, BIntD32, u32);
digits_impl!(BUintD16, BIntD16, u16);
digits_impl!(BUintD8, BIntD8, u8);

fn slice_inputs(r: &mut Rng, n: usize, thorough: bool) -> Vec<Vec<u8>> {
    let mut v: Vec<Vec<u8>> = Vec::new();
    let pats: [u8; 5] = [0x00, 0x01, 0x7f, 0x80, 0xff];
    if n <= 2 {
        // exhaustive over the pattern alphabet for lengths 0..2n+2
        for len in 0..=(2 * n + 2) {
            let total = 5usize.pow(len as u32);
            for mut code in 0..total {
                let mut s = Vec::with_capacity(len);
                for _ in 0..len {
                    s.push(pats[code % 5]);
                    code /= 5;
                }
                v.push(s);
            }
        }
    } else {
        let per = if thorough { 12 } else { 3 };
        for len in 0..=(2 * n + 2) {
            if !thorough && n > 24 && len > n + 10 && len < 2 * n && r.below(4) != 0 {
                continue;
            }
            for _ in 0..per {
                // value part random/extreme, excess part mostly pure padding with occasional impurities
                let mut s: Vec<u8> = (0..len).map(|_| (r.next() & 0xff) as u8).collect();
                let kind = r.below(6);
                if len > 0 {
                    let pad = *r.pick(&[0x00u8, 0xff]);
                    let excess = len.saturating_sub(n);
                    // "s" is built most-significant first here; callers reverse for little endian
                    for k in 0..excess {
                        s[k] = pad;
                    }
                    match kind {
                        0 if excess > 0 => {
                            let k = r.below(excess as u64) as usize;
                            s[k] = *r.pick(&pats);
                        }
                        5 if excess > 1 => {
                            // two blocks of padding, each pure but different: the outer block of the other padding byte
                            let outer = 1 + r.below(excess as u64 - 1) as usize;
                            let outer = if r.below(2) == 0 { (outer / 8).max(1) * 8 } else { outer }.min(excess - 1).max(1);
                            for k in 0..outer {
                                s[k] = !pad;
                            }
                        }
                        1 if excess < len => {
                            // make the sign bit of the value part agree / disagree with the padding
                            s[excess] = if pad == 0xff { 0x80 | (s[excess] & 0x7f) } else { s[excess] & 0x7f };
                        }
                        2 if excess < len => {
                            s[excess] = if pad == 0xff { s[excess] & 0x7f } else { 0x80 | s[excess] };
                        }
                        3 => {
                            for x in s.iter_mut() {
                                *x = *r.pick(&pats);
                            }
                        }
                        _ => {}
                    }
                }
                v.push(s);
            }
        }
    }
    v
}

trait Consts: Bn {
    fn const_events(rec: &mut Rec);
}
macro_rules! consts_impl {
    ($U:ident, $I:ident) => {
        impl<const N: usize> Consts for $U<N> {
            fn const_events(rec: &mut Rec) {
                rec.sem = "C16";
                rec.fam("consts", vec![]);
                rec.form("BITS", || natv(Self::BITS as u128));
                rec.form("BYTES", || natv(Self::BYTES as u128));
                rec.form("MIN", || val(Self::MIN));
                rec.form("MAX", || val(Self::MAX));
                rec.form("ZERO", || val(Self::ZERO));
                rec.form("ONE", || val(Self::ONE));
                rec.form("TWO", || val(Self::TWO));
                rec.form("THREE", || val(Self::THREE));
                rec.form("FOUR", || val(Self::FOUR));
                rec.form("FIVE", || val(Self::FIVE));
                rec.form("SIX", || val(Self::SIX));
                rec.form("SEVEN", || val(Self::SEVEN));
                rec.form("EIGHT", || val(Self::EIGHT));
                rec.form("NINE", || val(Self::NINE));
                rec.form("TEN", || val(Self::TEN));
                rec.form("DEFAULT", || val(<Self as Default>::default()));
            }
        }
        impl<const N: usize> Consts for $I<N> {
            fn const_events(rec: &mut Rec) {
                rec.sem = "C16";
                rec.fam("consts", vec![]);
                rec.form("BITS", || natv(Self::BITS as u128));
                rec.form("BYTES", || natv(Self::BYTES as u128));
                rec.form("MIN", || val(Self::MIN));
                rec.form("MAX", || val(Self::MAX));
                rec.form("ZERO", || val(Self::ZERO));
                rec.form("ONE", || val(Self::ONE));
                rec.form("TWO", || val(Self::TWO));
                rec.form("THREE", || val(Self::THREE));
                rec.form("FOUR", || val(Self::FOUR));
                rec.form("FIVE", || val(Self::FIVE));
                rec.form("SIX", || val(Self::SIX));
                rec.form("SEVEN", || val(Self::SEVEN));
                rec.form("EIGHT", || val(Self::EIGHT));
                rec.form("NINE", || val(Self::NINE));
                rec.form("TEN", || val(Self::TEN));
                rec.form("NEG_ONE", || val(Self::NEG_ONE));
                rec.form("NEG_TWO", || val(Self::NEG_TWO));
                rec.form("NEG_THREE", || val(Self::NEG_THREE));
                rec.form("NEG_FOUR", || val(Self::NEG_FOUR));
                rec.form("NEG_FIVE", || val(Self::NEG_FIVE));
                rec.form("NEG_SIX", || val(Self::NEG_SIX));
                rec.form("NEG_SEVEN", || val(Self::NEG_SEVEN));
                rec.form("NEG_EIGHT", || val(Self::NEG_EIGHT));
                rec.form("NEG_NINE", || val(Self::NEG_NINE));
                rec.form("NEG_TEN", || val(Self::NEG_TEN));
                rec.form("DEFAULT", || val(<Self as Default>::default()));
            }
        }
    };
}
consts_impl!(BUint, BInt);
consts_impl!(BUintD32, BIntD32);
consts_impl!(BUintD16, BIntD16);
consts_impl!(BUintD8, BIntD8);

macro_rules! per_type_one {
    ($T:ty, $rec:expr, $c:expr) => {{
        let thorough = $c.cli.tier == "thorough";
        let prop = $c.cli.prop.clone();
        let n = (<$T as Bn>::W / 8) as usize;
        let mut r = Rng::new($c.cli.seed ^ ((<$T as Bn>::W as u64) << 35) ^ 0x5151);
        if prop == "C15" {
            $rec.sem = "C15";
            for s in slice_inputs(&mut r, n, thorough) {
                // s is most significant first
                let be = s.clone();
                let mut le = s.clone();
                le.reverse();
                $rec.ev("from_be_slice", vec![bytes(&be)], || opt(<$T>::from_be_slice(&be)));
                $rec.ev("from_le_slice", vec![bytes(&le)], || opt(<$T>::from_le_slice(&le)));
            }
            for b in gen::values(&mut r, n, if thorough { 60 } else { 14 }) {
                let x = <$T as Bn>::dec(&b);
                $rec.fam("endian", vec![int(&x), tag(if cfg!(target_endian = "little") { "little" } else { "big" })]);
                $rec.form("to_be", || val(x.to_be()));
                $rec.form("to_le", || val(x.to_le()));
                $rec.form("from_be", || val(<$T>::from_be(x)));
                $rec.form("from_le", || val(<$T>::from_le(x)));
            }
        }
        if prop == "C13" {
            for b in gen::values(&mut r, n, if thorough { 40 } else { 10 }) {
                <$T as Digits>::digit_events(&mut *$rec, &b);
            }
        }
        if prop == "C16" {
            <$T as Consts>::const_events(&mut *$rec);
        }
    }};
}

macro_rules! reinterpret {
    ($U:ty, $I:ty, $ru:expr, $ri:expr, $c:expr) => {{
        if $c.cli.prop == "C09" {
            let n = (<$U as Bn>::W / 8) as usize;
            let mut r = Rng::new($c.cli.seed ^ ((<$U as Bn>::W as u64) << 36) ^ 0x7171);
            for b in gen::values(&mut r, n, if $c.cli.tier == "thorough" { 60 } else { 14 }) {
                let u = <$U as Bn>::dec(&b);
                let i = <$I as Bn>::dec(&b);
                $ru.sem = "C09";
                $ri.sem = "C09";
                $ru.ev("cast_signed", vec![int(&u)], || val(u.cast_signed()));
                $ri.fam("reinterpret", vec![int(&i)]);
                $ri.form("cast_unsigned", || val(i.cast_unsigned()));
                $ri.form("to_bits", || val(i.to_bits()));
                $ri.form("as_bits", || val(*i.as_bits()));
                $ru.ev("from_bits", vec![int(&u)], || val(<$I>::from_bits(u)));
            }
        }
    }};
}

trait PerType: Bn {
    fn per_type(rec: &mut Rec, c: &Ctx);
}
macro_rules! per_type_impl {
    ($($F:ident),*) => {$(
        impl<const N: usize> PerType for $F<N> {
            fn per_type(rec: &mut Rec, c: &Ctx) {
                per_type_one!($F<N>, rec, c);
            }
        }
    )*};
}
per_type_impl!(BUint, BInt, BUintD32, BIntD32, BUintD16, BIntD16, BUintD8, BIntD8);
trait Reinterp: Bn {
    fn reinterpret(ru: &mut Rec, ri: &mut Rec, c: &Ctx);
}
macro_rules! reinterp_impl {
    ($($U:ident, $I:ident);*) => {$(
        impl<const N: usize> Reinterp for $U<N> {
            fn reinterpret(ru: &mut Rec, ri: &mut Rec, c: &Ctx) {
                reinterpret!($U<N>, $I<N>, ru, ri, c);
            }
        }
    )*};
}
reinterp_impl!(BUint, BInt; BUintD32, BIntD32; BUintD16, BIntD16; BUintD8, BIntD8);

macro_rules! per_type {
    ($w:literal; $(($U:ty, $I:ty)),+) => {
        with_ctx(|c| {
            if c.cli.only_width.map_or(true, |x| x == $w) {
                let mut us: Vec<(&'static str, Rec)> = Vec::new();
                let mut is: Vec<(&'static str, Rec)> = Vec::new();
                $(
                    {
                        let mut ru = Rec::new();
                        let mut ri = Rec::new();
                        <$U as PerType>::per_type(&mut ru, c);
                        <$I as PerType>::per_type(&mut ri, c);
                        <$U as Reinterp>::reinterpret(&mut ru, &mut ri, c);
                        if c.cli.prop == "C13" {
                            // digit arrays differ per digit type: not merged
                            c.sink.merge($w, false, "bnum", vec![(label::<$U>(), ru)]);
                            c.sink.merge($w, true, "bnum", vec![(label::<$I>(), ri)]);
                        } else {
                            us.push((<$U as Bn>::DT, ru));
                            is.push((<$I as Bn>::DT, ri));
                        }
                    }
                )+
                c.sink.merge($w, false, "bnum", us);
                c.sink.merge($w, true, "bnum", is);
            }
        });
    };
}

trait PrimConv: Bn {
    fn prim_events();
}
macro_rules! prim_conv_impl {
    ($($F:ident),*) => {$(
        impl<const N: usize> PrimConv for $F<N> {
            fn prim_events() {
                prim_body_one!($F<N>);
            }
        }
    )*};
}
prim_conv_impl!(BUint, BInt, BUintD32, BIntD32, BUintD16, BIntD16, BUintD8, BIntD8);
macro_rules! prim_body {
    ($w:literal; $(($U:ty, $I:ty)),+) => {
        $(
            if with_width($w) {
                <$U as PrimConv>::prim_events();
                <$I as PrimConv>::prim_events();
            }
        )+
    };
}
fn with_width(w: u32) -> bool {
    let mut ok = true;
    with_ctx(|c| ok = c.cli.only_width.map_or(true, |x| x == w));
    ok
}

// narrow/wide commutation: zero-/sign-extending the operands into a wider type commutes with every
// value-level operation whose exact result is representable in the narrower type
macro_rules! nw_pair {
    ($S:ty, $D:ty) => {
        with_ctx(|c| {
            let thorough = c.cli.tier == "thorough";
            let n = (<$S as Bn>::W / 8) as usize;
            let mut r = Rng::new(c.cli.seed ^ ((<$S as Bn>::W as u64) << 37) ^ ((<$D as Bn>::W as u64) << 17) ^ 0x1616 ^ (<$S as Bn>::S as u64));
            let mut rec = Rec::new();
            rec.sem = "C16";
            let ty = Arg::Int { w: <$D as Bn>::W, s: <$D as Bn>::S, v: vec![] };
            let mut ps = gen::pairs(&mut r, n, if thorough { 300 } else { 40 });
            // small operands so that products, powers and shifts are often representable in the narrow type
            for _ in 0..(if thorough { 200 } else { 30 }) {
                let k = 1 + r.below(n as u64) as usize;
                let a = gen::fit(&gen::short(&mut r, k.min(n)), n);
                let b = gen::small(n, r.below(70));
                ps.push((if r.below(3) == 0 { gen::negate(&a) } else { a }, if r.below(4) == 0 { gen::negate(&b) } else { b }));
            }
            for (ab, bb) in ps.iter() {
                let a = <$S as Bn>::dec(ab);
                let b = <$S as Bn>::dec(bb);
                let wa: $D = As::as_::<$D>(a);
                let wb: $D = As::as_::<$D>(b);
                let e: u32 = (bb[0] as u32) % 67;
                let sh: u32 = (bb[0] as u32) % <$S as Bn>::W;
                rec.fam("nw", vec![int(&a), int(&b), ty.clone(), nat(e as u128), nat(sh as u128)]);
                rec.form("cast_a", || val(wa));
                rec.form("cast_b", || val(wb));
                rec.form("add_n", || opt(a.checked_add(b)));
                rec.form("add_w", || opt(wa.checked_add(wb)));
                rec.form("sub_n", || opt(a.checked_sub(b)));
                rec.form("sub_w", || opt(wa.checked_sub(wb)));
                rec.form("mul_n", || opt(a.checked_mul(b)));
                rec.form("mul_w", || opt(wa.checked_mul(wb)));
                rec.form("div_n", || opt(a.checked_div(b)));
                rec.form("div_w", || opt(wa.checked_div(wb)));
                rec.form("rem_n", || opt(a.checked_rem(b)));
                rec.form("rem_w", || opt(wa.checked_rem(wb)));
                rec.form("pow_n", || opt(a.checked_pow(e)));
                rec.form("pow_w", || opt(wa.checked_pow(e)));
                rec.form("shl_n", || val(a.wrapping_shl(sh)));
                rec.form("shl_w", || val(wa.wrapping_shl(sh)));
                rec.form("cmp_n", || ordv(Ord::cmp(&a, &b)));
                rec.form("cmp_w", || ordv(Ord::cmp(&wa, &wb)));
                rec.form("str_n", || bytesv(a.to_string().as_bytes()));
                rec.form("str_w", || bytesv(wa.to_string().as_bytes()));
                rec.form("parse_w", || match a.to_string().parse::<$D>() {
                    Ok(v) => val(v),
                    Err(_) => Out::Err_("parse".to_string()),
                });
            }
            let lab: &'static str = Box::leak(format!("{}>{}", label::<$S>(), label::<$D>()).into_boxed_str());
            c.sink.merge(<$S as Bn>::W, <$S as Bn>::S, "bnum", vec![(lab, rec)]);
        });
    };
}
macro_rules! nw_fns {
    ($($name:ident: $SU:ty, $SI:ty => $DU:ty, $DI:ty);*) => {
        $(
            fn $name() {
                nw_pair!($SU, $DU);
                nw_pair!($SI, $DI);
            }
        )*
        fn nw_all() {
            $( $name(); )*
        }
    };
}
nw_fns!(
    nw1: BUintD8<1>, BIntD8<1> => BUintD8<2>, BIntD8<2>;
    nw2: BUintD8<1>, BIntD8<1> => BUint<1>, BInt<1>;
    nw3: BUintD8<3>, BIntD8<3> => BUintD16<2>, BIntD16<2>;
    nw4: BUintD8<3>, BIntD8<3> => BUint<1>, BInt<1>;
    nw5: BUintD16<1>, BIntD16<1> => BUintD32<1>, BIntD32<1>;
    nw6: BUintD32<1>, BIntD32<1> => BUint<2>, BInt<2>;
    nw7: BUint<1>, BInt<1> => BUint<2>, BInt<2>;
    nw8: BUint<1>, BInt<1> => BUintD8<9>, BIntD8<9>;
    nw9: BUintD32<3>, BIntD32<3> => BUint<2>, BInt<2>;
    nw10: BUint<2>, BInt<2> => BUint<3>, BInt<3>;
    nw11: BUintD8<17>, BIntD8<17> => BUint<3>, BInt<3>;
    nw12: BUint<3>, BInt<3> => BUint<4>, BInt<4>;
    nw13: BUintD16<3>, BIntD16<3> => BUintD32<2>, BIntD32<2>;
    nw14: BUint<2>, BInt<2> => BUintD32<5>, BIntD32<5>;
    nw15: BUintD32<2>, BIntD32<2> => BUintD16<12>, BIntD16<12>;
    nw16: BUint<4>, BInt<4> => BUint<8>, BInt<8>
);

// As between the primitive integers themselves (bnum defines these "for consistency")
macro_rules! prim_prim_inner {
    ($rec:expr, $r:expr, $s:ident, $sw:literal, $ss:tt; $($d:ident, $dw:literal, $ds:tt);*) => {
        $(
            {
                let pn = $sw / 8;
                for b in pair_values($r, pn, $dw, 0) {
                    let mut full = [0u8; 16];
                    let ext = if $ss && b[pn - 1] & 0x80 != 0 { 0xffu8 } else { 0 };
                    for k in 0..16 {
                        full[k] = if k < pn { b[k] } else { ext };
                    }
                    let pv = u128::from_le_bytes(full) as $s;
                    $rec.sem = "C09";
                    $rec.fam("as", vec![Arg::Int { w: $sw, s: $ss, v: b.clone() }, Arg::Int { w: $dw, s: $ds, v: vec![] }, tag(concat!(stringify!($s), ">", stringify!($d)))]);
                    $rec.form("as_", || Out::Val(prim_enc_u(As::as_::<$d>(pv) as u128, $dw)));
                    $rec.form("cast_from", || Out::Val(prim_enc_u(<$d as CastFrom<$s>>::cast_from(pv) as u128, $dw)));
                }
            }
        )*
    };
}
macro_rules! prim_prim_outer {
    ($rec:expr, $r:expr; $($s:ident, $sw:literal, $ss:tt);*) => {
        $( prim_list!(prim_prim_inner; $rec, $r, $s, $sw, $ss); )*
    };
}
fn prim_prim_events() {
    with_ctx(|c| {
        if c.cli.only_width.is_some() {
            return;
        }
        let mut rec = Rec::new();
        let mut r = Rng::new(c.cli.seed ^ 0x9090);
        prim_list!(prim_prim_outer; rec, &mut r);
        c.sink.merge(0, false, "bnum", vec![("prim", rec)]);
    });
}

/// the type aliases have exactly the named widths
fn alias_events() {
    use bnum::types::*;
    with_ctx(|c| {
        let mut rec = Rec::new();
        rec.sem = "C16";
        macro_rules! alias {
            ($($bits:literal $u:ident $i:ident);*) => {$(
                rec.fam("alias", vec![nat($bits)]);
                rec.form("U_BITS", || natv(<$u>::BITS as u128));
                rec.form("I_BITS", || natv(<$i>::BITS as u128));
                rec.form("U_BYTES", || natv(<$u>::BYTES as u128));
                rec.form("I_BYTES", || natv(<$i>::BYTES as u128));
                rec.form("U_MAX_ONES", || natv(<$u>::MAX.count_ones() as u128));
                rec.form("I_MIN_TZ", || natv(<$i>::MIN.trailing_zeros() as u128));
                rec.form("I_NEG_ONE_ONES", || natv(<$i>::NEG_ONE.count_ones() as u128));
            )*};
        }
        alias!(128 U128 I128; 256 U256 I256; 512 U512 I512; 1024 U1024 I1024; 2048 U2048 I2048; 4096 U4096 I4096; 8192 U8192 I8192);
        c.sink.merge(0, false, "bnum", vec![("u64", rec)]);
    });
}

fn main() {
    install_hook();
    let cli = parse_cli();
    let prop = cli.prop.clone();
    let sink = Sink::new(&cli.out, &prop);
    CTX.with(|c| *c.borrow_mut() = Some(Ctx { cli, sink }));
    match prop.as_str() {
        "C09" => {
            pair_types!(for_pairs; pair_body);
            the_matrix!(prim_body);
            the_matrix!(per_type);
            the_giants!(prim_body);
            prim_prim_events();
            asprim_family!(BUint, BInt; BUintD32, BIntD32; BUintD16, BIntD16; BUintD8, BIntD8);
        }
        "C13" => {
            pair_types!(for_pairs; pair_body);
            the_matrix!(prim_body);
            the_matrix!(per_type);
            the_giants!(prim_body);
        }
        "C15" => {
            the_matrix!(per_type);
        }
        "C16" => {
            the_matrix!(per_type);
            alias_events();
            nw_all();
            pair_types!(for_pairs; pair_body);
        }
        p => panic!("unknown property {}", p),
    }
    let ctx = CTX.with(|c| c.borrow_mut().take().unwrap());
    let (n, splits) = ctx.sink.finish();
    eprintln!("recorded {} events, {} digit-type splits, mode {}", n, splits, MODE);
}
