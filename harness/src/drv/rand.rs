// body of the `rand` recorder, included by src/bin/rand.rs (the matrix of DESIGN.md 5.1) and by src/bin/rand_s<k>.rs
// (chunk k of the width sweep); `the_matrix!` and `the_giants!` are defined by the including file.

use bnum_verif_harness::gen::{self, Rng as GRng, B};
use bnum_verif_harness::*;
use rand::distributions::uniform::{SampleUniform, UniformSampler};
use rand::distributions::{Distribution, Standard, Uniform};
use rand::{Rng, RngCore};

struct Script {
    pre: Vec<u8>,
    pos: usize,
    fallback: GRng,
}
impl Script {
    fn new(pre: &[u8], seed: u64) -> Self {
        Script { pre: pre.to_vec(), pos: 0, fallback: GRng::new(seed) }
    }
    fn byte(&mut self) -> u8 {
        let b = if self.pos < self.pre.len() { self.pre[self.pos] } else { (self.fallback.next() >> 24) as u8 };
        self.pos += 1;
        b
    }
}
impl RngCore for Script {
    fn next_u32(&mut self) -> u32 {
        let mut b = [0u8; 4];
        self.fill_bytes(&mut b);
        u32::from_le_bytes(b)
    }
    fn next_u64(&mut self) -> u64 {
        let mut b = [0u8; 8];
        self.fill_bytes(&mut b);
        u64::from_le_bytes(b)
    }
    fn fill_bytes(&mut self, dest: &mut [u8]) {
        for d in dest.iter_mut() {
            *d = self.byte();
        }
    }
    fn try_fill_bytes(&mut self, dest: &mut [u8]) -> Result<(), rand::Error> {
        self.fill_bytes(dest);
        Ok(())
    }
}

trait R20: Bn + SampleUniform + PartialOrd
where
    Standard: Distribution<Self>,
    bnum::random::Slice<Self>: rand::Fill,
{
}
impl<T: Bn + SampleUniform + PartialOrd> R20 for T
where
    Standard: Distribution<T>,
    bnum::random::Slice<T>: rand::Fill,
{
}

fn standard_events<T: R20>(rec: &mut Rec, r: &mut GRng, thorough: bool)
where
    Standard: Distribution<T>,
    bnum::random::Slice<T>: rand::Fill,
{
    let n = (T::W / 8) as usize;
    rec.sem = "C20";
    let mut streams: Vec<Vec<u8>> = vec![vec![0u8; n], vec![0xff; n], (0..n).map(|i| (i + 1) as u8).collect(), gen::smin(n), gen::small(n, 1)];
    for _ in 0..(if thorough { 30 } else { 6 }) {
        streams.push(gen::random(r, n));
        streams.push(gen::extreme(r, n));
    }
    for s in streams {
        rec.fam("standard", vec![bytes(&s)]);
        rec.form("gen", || {
            let mut g = Script::new(&s, 1);
            let v: T = g.gen();
            Out::Rec(vec![("v".to_string(), val(v)), ("used".to_string(), natv(g.pos as u128))])
        });
        rec.form("standard_sample", || {
            let mut g = Script::new(&s, 1);
            let v: T = Standard.sample(&mut g);
            Out::Rec(vec![("v".to_string(), val(v)), ("used".to_string(), natv(g.pos as u128))])
        });
        rec.form("fill_one", || {
            let mut g = Script::new(&s, 1);
            let mut arr = [T::dec(&vec![0x55u8; n])];
            bnum::random::try_fill_slice(&mut arr, &mut g).unwrap();
            Out::Rec(vec![("v".to_string(), val(arr[0])), ("used".to_string(), natv(g.pos as u128))])
        });
    }
    // slice fill equals filling each element in turn
    for k in [0usize, 1, 2, 3, 7] {
        let s = gen::random(r, n * k);
        rec.fam("fill_slice", vec![bytes(&s), nat(k as u128)]);
        rec.form("slice", || {
            let mut g = Script::new(&s, 2);
            let mut v: Vec<T> = vec![T::dec(&vec![0xaau8; n]); k];
            bnum::random::try_fill_slice(&mut v, &mut g).unwrap();
            Out::Rec(vec![("v".to_string(), Out::Bytes(v.iter().flat_map(|x| x.enc()).collect())), ("used".to_string(), natv(g.pos as u128))])
        });
        rec.form("elementwise", || {
            let mut g = Script::new(&s, 2);
            let v: Vec<T> = (0..k).map(|_| g.gen::<T>()).collect();
            Out::Rec(vec![("v".to_string(), Out::Bytes(v.iter().flat_map(|x| x.enc()).collect())), ("used".to_string(), natv(g.pos as u128))])
        });
        rec.form("fill_trait", || {
            let mut g = Script::new(&s, 2);
            let mut v: Vec<T> = vec![T::dec(&vec![0xaau8; n]); k];
            {
                let sl: &mut [T] = &mut v;
                let sl = unsafe { &mut *(sl as *mut [T] as *mut bnum::random::Slice<T>) };
                g.fill(sl);
            }
            Out::Rec(vec![("v".to_string(), Out::Bytes(v.iter().flat_map(|x| x.enc()).collect())), ("used".to_string(), natv(g.pos as u128))])
        });
    }
}

/// one draw through each sampling entry point; the word prefix is `words`
fn draw<T: R20>(method: &str, low: T, high: T, high_excl: Option<T>, g: &mut Script) -> Option<T>
where
    Standard: Distribution<T>,
    bnum::random::Slice<T>: rand::Fill,
{
    match method {
        "sample" => Some(Uniform::new_inclusive(low, high).sample(g)),
        "single_inclusive" => Some(<T::Sampler as UniformSampler>::sample_single_inclusive(low, high, g)),
        "gen_range" => Some(g.gen_range(low..=high)),
        "new_sample" => high_excl.map(|h| Uniform::new(low, h).sample(g)),
        "single" => high_excl.map(|h| <T::Sampler as UniformSampler>::sample_single(low, h, g)),
        "gen_range_excl" => high_excl.map(|h| g.gen_range(low..h)),
        _ => panic!("method"),
    }
}
const METHODS: [&str; 6] = ["sample", "single_inclusive", "gen_range", "new_sample", "single", "gen_range_excl"];

/// pattern arithmetic on the harness side: value of pattern as offset from low (mod 2^W), if < size
fn offset(n: usize, low: &B, x: &B) -> B {
    // (x - low) mod 2^(8n)
    let mut out = vec![0u8; n];
    let mut br = 0i16;
    for i in 0..n {
        let mut d = x[i] as i16 - low[i] as i16 - br;
        if d < 0 {
            d += 256;
            br = 1;
        } else {
            br = 0;
        }
        out[i] = d as u8;
    }
    out
}
fn to_u64(b: &B) -> Option<u64> {
    if b.iter().skip(8).any(|x| *x != 0) {
        return None;
    }
    let mut v = 0u64;
    for (i, x) in b.iter().take(8).enumerate() {
        v |= (*x as u64) << (8 * i);
    }
    Some(v)
}

/// complete enumeration of the first RNG word for one range: histogram of results over accepted words
fn hist_event<T: R20>(rec: &mut Rec, lowb: &B, highb: &B, size: u64)
where
    Standard: Distribution<T>,
    bnum::random::Slice<T>: rand::Fill,
{
    let n = (T::W / 8) as usize;
    let low = T::dec(lowb);
    let high = T::dec(highb);
    let hx = gen::add1(highb);
    // high + 1 as an exclusive bound exists unless high is the type's maximum
    let is_max = if T::S { *highb == gen::smax(n) } else { *highb == gen::ones(n) };
    let high_excl = if is_max { None } else { Some(T::dec(&hx)) };
    rec.sem = "C20";
    rec.fam("uniform_hist", vec![int(&low), int(&high), nat(size as u128)]);
    let total: u64 = 1u64 << (8 * n);
    for m in METHODS.iter() {
        if high_excl.is_none() && (*m == "new_sample" || *m == "single" || *m == "gen_range_excl") {
            continue;
        }
        let m: &'static str = m;
        rec.form(m, || {
            let mut counts = vec![0u64; size as usize];
            let mut rejected = 0u64;
            let mut outside = 0u64;
            for word in 0..total {
                let wb = word.to_le_bytes();
                let mut g = Script::new(&wb[..n], 3);
                let v = draw::<T>(m, low, high, high_excl, &mut g).unwrap();
                let off = offset(n, lowb, &v.enc());
                match to_u64(&off) {
                    Some(k) if k < size => {
                        if g.pos == n {
                            counts[k as usize] += 1;
                        } else {
                            rejected += 1;
                        }
                    }
                    _ => outside += 1,
                }
            }
            Out::Rec(vec![("counts".to_string(), Out::Ints(counts)), ("rejected".to_string(), Out::Ints(vec![rejected])), ("outside".to_string(), Out::Ints(vec![outside]))])
        });
    }
}

/// membership and termination at any width: a few crafted word prefixes per range
fn point_events<T: R20>(rec: &mut Rec, r: &mut GRng, thorough: bool)
where
    Standard: Distribution<T>,
    bnum::random::Slice<T>: rand::Fill,
{
    let n = (T::W / 8) as usize;
    let bnd = gen::boundary(n);
    rec.sem = "C20";
    let mut ranges: Vec<(B, B)> = Vec::new();
    let (tmin, tmax) = if T::S { (gen::smin(n), gen::smax(n)) } else { (gen::zero(n), gen::ones(n)) };
    ranges.push((tmin.clone(), tmax.clone())); // the full range: size wraps to zero
    ranges.push((tmin.clone(), tmin.clone())); // size 1
    ranges.push((tmax.clone(), tmax.clone()));
    ranges.push((tmin.clone(), gen::sub1(&tmax)));
    ranges.push((gen::add1(&tmin), tmax.clone()));
    if T::S {
        ranges.push((gen::ones(n), gen::small(n, 1))); // -1..=1 spanning zero
        ranges.push((gen::negate(&gen::small(n, 100)), gen::small(n, 100)));
    }
    for _ in 0..(if thorough { 60 } else { 10 }) {
        let a = gen::any(r, n, &bnd);
        let b = gen::any(r, n, &bnd);
        let le = if T::S { gen::scmp(&a, &b) } else { gen::ucmp(&a, &b) };
        if le == std::cmp::Ordering::Greater {
            ranges.push((b, a));
        } else {
            ranges.push((a, b));
        }
    }
    // sizes 2^k and 2^k + 1 from a random low
    for _ in 0..(if thorough { 20 } else { 4 }) {
        let k = r.below((8 * n - 1) as u64) as usize;
        let low = gen::fit(&gen::short(r, (n / 2).max(1)), n);
        let size = if r.below(2) == 0 { gen::pow2(n, k) } else { gen::add1(&gen::pow2(n, k)) };
        let high = gen::sub1(&gen::fit(&gen::uadd(&low, &size)[..n].to_vec(), n));
        let ok = if T::S { gen::scmp(&low, &high) != std::cmp::Ordering::Greater } else { gen::ucmp(&low, &high) != std::cmp::Ordering::Greater };
        if ok {
            ranges.push((low, high));
        }
    }
    for (lb, hb) in ranges {
        let low = T::dec(&lb);
        let high = T::dec(&hb);
        let is_max = hb == tmax;
        let high_excl = if is_max { None } else { Some(T::dec(&gen::add1(&hb))) };
        let prefixes: Vec<Vec<u8>> = vec![vec![0u8; n], vec![0xff; n], gen::random(r, n), gen::random(r, 2 * n), [vec![0xffu8; n], vec![0u8; n]].concat()];
        for pre in prefixes {
            rec.fam("uniform_point", vec![int(&low), int(&high), bytes(&pre)]);
            for m in METHODS.iter() {
                let m: &'static str = m;
                if high_excl.is_none() && (m == "new_sample" || m == "single" || m == "gen_range_excl") {
                    continue;
                }
                rec.form(m, || {
                    let mut g = Script::new(&pre, 5);
                    val(draw::<T>(m, low, high, high_excl, &mut g).unwrap())
                });
            }
        }
    }
}

/// acceptance is a property of the word, not of the history: a word that is rejected as the first word of a
/// stream is rejected wherever it occurs, so [v, v, ... (k times), u] must give what [u] gives and consume k+1 words.
/// The rejected word v is found by the harness by trying words (ranges just above half the type are rejected
/// about half of the time); u is a word that is accepted as a first word.
fn stateless_events<T: R20>(rec: &mut Rec, r: &mut GRng, thorough: bool)
where
    Standard: Distribution<T>,
    bnum::random::Slice<T>: rand::Fill,
{
    let n = (T::W / 8) as usize;
    rec.sem = "C20";
    let (tmin, _tmax) = if T::S { (gen::smin(n), gen::smax(n)) } else { (gen::zero(n), gen::ones(n)) };
    // range [MIN, MIN + 2^(W-1)]: size 2^(W-1) + 1
    let lowb = tmin.clone();
    let mut highb = tmin.clone();
    // high = low + 2^(W-1): flip the top bit
    highb[n - 1] ^= 0x80;
    let low = T::dec(&lowb);
    let high = T::dec(&highb);
    let is_max = false;
    for m in ["sample", "single_inclusive", "gen_range"] {
        // find a rejected and an accepted first word
        let mut rej: Option<Vec<u8>> = None;
        let mut acc: Option<Vec<u8>> = None;
        for _ in 0..400 {
            let wv = gen::random(r, n);
            let mut g = Script::new(&wv, 9);
            let _ = draw::<T>(m, low, high, None, &mut g);
            if g.pos == n {
                if acc.is_none() {
                    acc = Some(wv);
                }
            } else if rej.is_none() {
                rej = Some(wv);
            }
            if rej.is_some() && acc.is_some() {
                break;
            }
        }
        if let (Some(v), Some(u)) = (rej, acc) {
            for k in [1usize, 2, 127, 128, 129, 200, if thorough { 1000 } else { 300 }] {
                let mut stream: Vec<u8> = Vec::with_capacity((k + 1) * n);
                for _ in 0..k {
                    stream.extend_from_slice(&v);
                }
                stream.extend_from_slice(&u);
                let m: &'static str = m;
                rec.fam("uniform_stateless", vec![int(&low), int(&high), bytes(&v), bytes(&u), nat(k as u128), tag(m)]);
                rec.form("alone", || {
                    let mut g = Script::new(&u, 9);
                    let x = draw::<T>(m, low, high, None, &mut g).unwrap();
                    Out::Rec(vec![("v".to_string(), val(x)), ("used".to_string(), natv(g.pos as u128))])
                });
                rec.form("after", || {
                    let mut g = Script::new(&stream, 9);
                    let x = draw::<T>(m, low, high, None, &mut g).unwrap();
                    Out::Rec(vec![("v".to_string(), val(x)), ("used".to_string(), natv(g.pos as u128))])
                });
            }
        }
    }
    let _ = is_max;
}

fn hist_ranges(r: &mut GRng, n: usize, signed: bool, count: usize, max_size: u64) -> Vec<(B, B, u64)> {
    let mut v: Vec<(B, B, u64)> = Vec::new();
    let (tmin, tmax) = if signed { (gen::smin(n), gen::smax(n)) } else { (gen::zero(n), gen::ones(n)) };
    // sizes r for which 2^8, 2^16 and 2^24 leave different residues come first (7, 14, 9, 100, 11, 13, 22): a rejection zone
    // computed from the wrong power of two (the digit width instead of the type's width) is then a different zone;
    // for 3, 5, 6, 10, 12 the residues coincide and such a slip is invisible
    let sizes: Vec<u64> = vec![7, 14, 9, 100, 11, 13, 22, 3, 5, 6, 10, 1, 2, 4, 15, 16, 17, 127, 128, 129, 200, 255];
    for i in 0..count {
        let size = if i < sizes.len() && sizes[i] <= max_size { sizes[i] } else { 1 + r.below(max_size) };
        // low: sometimes so that the range spans zero / ends at the type's maximum
        let low = match r.below(4) {
            0 => tmin.clone(),
            1 => {
                // end at the maximum
                let mut l = tmax.clone();
                for _ in 1..size {
                    l = gen::sub1(&l);
                }
                l
            }
            2 if signed => gen::negate(&gen::small(n, size / 2)),
            _ => gen::random(r, n),
        };
        let mut high = low.clone();
        let mut ok = true;
        for _ in 1..size {
            if high == tmax {
                ok = false;
                break;
            }
            high = gen::add1(&high);
        }
        if ok {
            v.push((low, high, size));
        }
    }
    v
}

fn run_type<T: R20>(rec: &mut Rec, seed: u64, thorough: bool)
where
    Standard: Distribution<T>,
    bnum::random::Slice<T>: rand::Fill,
{
    let n = (T::W / 8) as usize;
    let mut r = GRng::new(seed ^ ((T::W as u64) << 28) ^ (T::S as u64) ^ 0xC20);
    standard_events::<T>(rec, &mut r, thorough);
    point_events::<T>(rec, &mut r, thorough);
    stateless_events::<T>(rec, &mut r, thorough);
    match T::W {
        8 => {
            let cnt = if thorough { 400 } else { 40 };
            for (l, h, s) in hist_ranges(&mut r, n, T::S, cnt, 255) {
                hist_event::<T>(rec, &l, &h, s);
            }
        }
        16 => {
            let cnt = if thorough { 40 } else { 5 };
            for (l, h, s) in hist_ranges(&mut r, n, T::S, cnt, 300) {
                hist_event::<T>(rec, &l, &h, s);
            }
        }
        24 => {
            // the approximate rejection zone first applies here: complete enumeration of 2^24 words
            // always one odd size and one even size that is not a power of two
            let cnt = if thorough { 8 } else { 2 };
            let mut rs = hist_ranges(&mut r, n, T::S, cnt + 24, 4096);
            rs.retain(|x| x.2 >= 3 && (x.2 & (x.2 - 1)) != 0);
            let odd: Vec<_> = rs.iter().filter(|x| x.2 % 2 == 1).take((cnt + 1) / 2).cloned().collect();
            let even: Vec<_> = rs.iter().filter(|x| x.2 % 2 == 0).take(cnt / 2).cloned().collect();
            for (l, h, s) in odd.into_iter().chain(even.into_iter()) {
                hist_event::<T>(rec, &l, &h, s);
            }
        }
        _ => {}
    }
}

struct Ctx {
    cli: Cli,
    sink: Sink,
}
thread_local! {
    static CTX: std::cell::RefCell<Option<Ctx>> = std::cell::RefCell::new(None);
}

macro_rules! run_bnum {
    ($w:literal; $(($U:ty, $I:ty)),+) => {
        CTX.with(|c| {
            let mut c = c.borrow_mut();
            let c = c.as_mut().unwrap();
            if c.cli.only_width.map_or(true, |x| x == $w) {
                let thorough = c.cli.tier == "thorough";
                let mut us: Vec<(&'static str, Rec)> = Vec::new();
                let mut is: Vec<(&'static str, Rec)> = Vec::new();
                $(
                    {
                        let mut ru = Rec::new();
                        let mut ri = Rec::new();
                        run_type::<$U>(&mut ru, c.cli.seed, thorough);
                        run_type::<$I>(&mut ri, c.cli.seed, thorough);
                        us.push((<$U as Bn>::DT, ru));
                        is.push((<$I as Bn>::DT, ri));
                    }
                )+
                c.sink.merge($w, false, "bnum", us);
                c.sink.merge($w, true, "bnum", is);
            }
        });
    };
}

fn main() {
    install_hook();
    let cli = parse_cli();
    let prop = cli.prop.clone();
    let sink = Sink::new(&cli.out, &prop);
    CTX.with(|c| *c.borrow_mut() = Some(Ctx { cli, sink }));
    the_matrix!(run_bnum);
    let ctx = CTX.with(|c| c.borrow_mut().take().unwrap());
    let (n, splits) = ctx.sink.finish();
    eprintln!("recorded {} events, {} digit-type splits, mode {}", n, splits, MODE);
}
