// body of the `traits` recorder, included by src/bin/traits.rs (the matrix of DESIGN.md 5.1) and by src/bin/traits_s<k>.rs
// (chunk k of the width sweep); `the_matrix!` and `the_giants!` are defined by the including file.

use bnum_verif_harness::gen::{self, Rng, B};
use bnum_verif_harness::*;
use core::ops::*;
use num_integer::{Integer, Roots};
use num_traits::{
    Bounded, CheckedAdd, CheckedDiv, CheckedEuclid, CheckedMul, CheckedNeg, CheckedRem, CheckedShl, CheckedShr, CheckedSub, Euclid, MulAdd, MulAddAssign, Num, One, Pow, PrimInt,
    Saturating, SaturatingAdd, SaturatingMul, SaturatingSub, Signed, WrappingAdd, WrappingMul, WrappingNeg, WrappingShl, WrappingShr, WrappingSub, Zero,
};
use num_traits::ops::overflowing::{OverflowingAdd, OverflowingSub};

// ----------------------------------------------------------------------------------------------
// C17: generic over the std operator traits

trait OpsAll:
    Bn
    + Add<Output = Self> + Sub<Output = Self> + Mul<Output = Self> + Div<Output = Self> + Rem<Output = Self>
    + for<'a> Add<&'a Self, Output = Self> + for<'a> Sub<&'a Self, Output = Self> + for<'a> Mul<&'a Self, Output = Self>
    + for<'a> Div<&'a Self, Output = Self> + for<'a> Rem<&'a Self, Output = Self>
    + AddAssign + SubAssign + MulAssign + DivAssign + RemAssign
    + for<'a> AddAssign<&'a Self> + for<'a> SubAssign<&'a Self> + for<'a> MulAssign<&'a Self> + for<'a> DivAssign<&'a Self> + for<'a> RemAssign<&'a Self>
    + BitAnd<Output = Self> + BitOr<Output = Self> + BitXor<Output = Self> + Not<Output = Self>
    + for<'a> BitAnd<&'a Self, Output = Self> + for<'a> BitOr<&'a Self, Output = Self> + for<'a> BitXor<&'a Self, Output = Self>
    + BitAndAssign + BitOrAssign + BitXorAssign
    + for<'a> BitAndAssign<&'a Self> + for<'a> BitOrAssign<&'a Self> + for<'a> BitXorAssign<&'a Self>
    + core::iter::Sum<Self> + core::iter::Product<Self>
    + for<'a> core::iter::Sum<&'a Self> + for<'a> core::iter::Product<&'a Self>
{
}

macro_rules! binop_forms {
    ($rec:expr, $sem:literal, $name:literal, $a:expr, $b:expr, $op:tt, $asg:tt) => {{
        let (a, b) = ($a, $b);
        $rec.sem = $sem;
        $rec.fam($name, vec![int(&a), int(&b)]);
        $rec.form("op", || val(a $op b));
        $rec.form("op_vr", || val(a $op &b));
        $rec.form("op_assign", || {
            let mut x = a;
            x $asg b;
            val(x)
        });
        $rec.form("op_assign_ref", || {
            let mut x = a;
            x $asg &b;
            val(x)
        });
        if Bn::enc(&a) == Bn::enc(&b) {
            // both operands are the same object (aliased references), not merely equal values
            $rec.form("op_rr_same", || val(&a $op &a));
            $rec.form("op_vr_same", || val(a $op &a));
            $rec.form("op_assign_same", || {
                let mut x = a;
                let y = x;
                x $asg &y;
                val(x)
            });
        }
    }};
}

fn c17_generic<T: OpsAll>(rec: &mut Rec, ab: &B, bb: &B)
where
    for<'a> &'a T: Add<T, Output = T> + Add<&'a T, Output = T> + Sub<T, Output = T> + Sub<&'a T, Output = T> + Mul<T, Output = T> + Mul<&'a T, Output = T>
        + Div<T, Output = T> + Div<&'a T, Output = T> + Rem<T, Output = T> + Rem<&'a T, Output = T>
        + BitAnd<T, Output = T> + BitAnd<&'a T, Output = T> + BitOr<T, Output = T> + BitOr<&'a T, Output = T> + BitXor<T, Output = T> + BitXor<&'a T, Output = T>
        + Not<Output = T>,
{
    let a = <T as Bn>::dec(ab);
    let b = <T as Bn>::dec(bb);
    binop_forms!(rec, "C01", "add", a, b, +, +=);
    rec.form("op_rv", || val(&a + b));
    rec.form("op_rr", || val(&a + &b));
    binop_forms!(rec, "C01", "sub", a, b, -, -=);
    rec.form("op_rv", || val(&a - b));
    rec.form("op_rr", || val(&a - &b));
    binop_forms!(rec, "C02", "mul", a, b, *, *=);
    rec.form("op_rv", || val(&a * b));
    rec.form("op_rr", || val(&a * &b));
    binop_forms!(rec, "C03", "div", a, b, /, /=);
    rec.form("op_rv", || val(&a / b));
    rec.form("op_rr", || val(&a / &b));
    binop_forms!(rec, "C03", "rem", a, b, %, %=);
    rec.form("op_rv", || val(&a % b));
    rec.form("op_rr", || val(&a % &b));
    binop_forms!(rec, "C06", "bitand", a, b, &, &=);
    rec.form("op_rv", || val(&a & b));
    rec.form("op_rr", || val(&a & &b));
    binop_forms!(rec, "C06", "bitor", a, b, |, |=);
    rec.form("op_rv", || val(&a | b));
    rec.form("op_rr", || val(&a | &b));
    binop_forms!(rec, "C06", "bitxor", a, b, ^, ^=);
    rec.form("op_rv", || val(&a ^ b));
    rec.form("op_rr", || val(&a ^ &b));
    rec.sem = "C06";
    rec.fam("not", vec![int(&a)]);
    rec.form("op", || val(!a));
    rec.form("ref", || val(!&a));
}

fn c17_fold<T: OpsAll>(rec: &mut Rec, items: &[B]) {
    let xs: Vec<T> = items.iter().map(|b| <T as Bn>::dec(b)).collect();
    rec.sem = "C17";
    rec.fam("fold", xs.iter().map(|x| int(x)).collect());
    rec.form("sum_val", || val(xs.iter().copied().sum::<T>()));
    rec.form("sum_ref", || val(xs.iter().sum::<T>()));
    rec.form("product_val", || val(xs.iter().copied().product::<T>()));
    rec.form("product_ref", || val(xs.iter().product::<T>()));
}

// the parts that need inherent methods or type-specific impls: one trait, implemented per family
trait Fam: OpsAll {
    fn c17_inherent(rec: &mut Rec, ab: &B, bb: &B);
    fn c17_shifts(rec: &mut Rec, xb: &B, amt: i128);
    fn c17_digit(rec: &mut Rec, xb: &B, d: u64);
    fn c18_pair(rec: &mut Rec, ab: &B, bb: &B, cb: &B);
    fn c18_unary(rec: &mut Rec, ab: &B);
    fn c18_root(rec: &mut Rec, xb: &B, n: u32);
    fn c18_shift(rec: &mut Rec, xb: &B, s: u32);
    fn c18_consts(rec: &mut Rec);
}

macro_rules! shift_all_forms {
    ($rec:expr, $x:expr, $amt:expr, $op:tt, $asg:tt; $($t:ident),*) => {{
        let x = $x;
        let amt: i128 = $amt;
        $(
            if let Ok(v) = <$t>::try_from(amt) {
                $rec.form(stringify!($t), || val(x $op v));
                $rec.form(concat!(stringify!($t), "_vr"), || val(x $op &v));
                $rec.form(concat!(stringify!($t), "_rv"), || val(&x $op v));
                $rec.form(concat!(stringify!($t), "_rr"), || val(&x $op &v));
                $rec.form(concat!(stringify!($t), "_assign"), || {
                    let mut y = x;
                    y $asg v;
                    val(y)
                });
                $rec.form(concat!(stringify!($t), "_assign_ref"), || {
                    let mut y = x;
                    y $asg &v;
                    val(y)
                });
            }
        )*
    }};
}
macro_rules! shift_bnum_forms {
    ($rec:expr, $x:expr, $amt:expr, $op:tt, $asg:tt; $($name:literal: $t:ty),*) => {{
        let x = $x;
        let amt: i128 = $amt;
        $(
            if amt >= 0 && amt < wof(&x) as i128 && (amt as u128) < (1u128 << (<$t as Bn>::W - 1).min(100)) {
                // the amount as a bnum integer, built from bytes by the harness
                let mut ab = vec![0u8; (<$t as Bn>::W / 8) as usize];
                let le = (amt as u128).to_le_bytes();
                for k in 0..ab.len().min(16) {
                    ab[k] = le[k];
                }
                let v = <$t as Bn>::dec(&ab);
                $rec.form($name, || val(x $op v));
                $rec.form(concat!($name, "_rr"), || val(&x $op &v));
                $rec.form(concat!($name, "_vr"), || val(x $op &v));
                $rec.form(concat!($name, "_rv"), || val(&x $op v));
                $rec.form(concat!($name, "_assign"), || {
                    let mut y = x;
                    y $asg v;
                    val(y)
                });
                $rec.form(concat!($name, "_assign_ref"), || {
                    let mut y = x;
                    y $asg &v;
                    val(y)
                });
            }
        )*
    }};
}

macro_rules! nt_arith {
    ($rec:expr, $a:expr, $b:expr, $c:expr) => {{
        let (a, b, c) = ($a, $b, $c);
        $rec.sem = "C01";
        $rec.fam("add", vec![int(&a), int(&b)]);
        $rec.form("checked", || opt(a.checked_add(b)));
        $rec.form("nt_checked", || opt(CheckedAdd::checked_add(&a, &b)));
        $rec.form("nt_wrapping", || val(WrappingAdd::wrapping_add(&a, &b)));
        $rec.form("nt_saturating", || val(SaturatingAdd::saturating_add(&a, &b)));
        $rec.form("nt_saturating2", || val(Saturating::saturating_add(a, b)));
        $rec.form("nt_overflowing", || pairf(OverflowingAdd::overflowing_add(&a, &b)));
        $rec.fam("sub", vec![int(&a), int(&b)]);
        $rec.form("checked", || opt(a.checked_sub(b)));
        $rec.form("nt_checked", || opt(CheckedSub::checked_sub(&a, &b)));
        $rec.form("nt_wrapping", || val(WrappingSub::wrapping_sub(&a, &b)));
        $rec.form("nt_saturating", || val(SaturatingSub::saturating_sub(&a, &b)));
        $rec.form("nt_saturating2", || val(Saturating::saturating_sub(a, b)));
        $rec.form("nt_overflowing", || pairf(OverflowingSub::overflowing_sub(&a, &b)));
        $rec.fam("neg", vec![int(&a)]);
        $rec.form("nt_checked", || opt(CheckedNeg::checked_neg(&a)));
        $rec.form("nt_wrapping", || val(WrappingNeg::wrapping_neg(&a)));
        $rec.sem = "C02";
        $rec.fam("mul", vec![int(&a), int(&b)]);
        $rec.form("checked", || opt(a.checked_mul(b)));
        $rec.form("nt_checked", || opt(CheckedMul::checked_mul(&a, &b)));
        $rec.form("nt_wrapping", || val(WrappingMul::wrapping_mul(&a, &b)));
        $rec.form("nt_saturating", || val(SaturatingMul::saturating_mul(&a, &b)));
        $rec.sem = "C03";
        $rec.fam("div", vec![int(&a), int(&b)]);
        $rec.form("nt_checked", || opt(CheckedDiv::checked_div(&a, &b)));
        $rec.fam("rem", vec![int(&a), int(&b)]);
        $rec.form("nt_checked", || opt(CheckedRem::checked_rem(&a, &b)));
        $rec.fam("div_euclid", vec![int(&a), int(&b)]);
        $rec.form("nt_checked", || opt(CheckedEuclid::checked_div_euclid(&a, &b)));
        $rec.form("plain", || val(Euclid::div_euclid(&a, &b)));
        $rec.fam("rem_euclid", vec![int(&a), int(&b)]);
        $rec.form("nt_checked", || opt(CheckedEuclid::checked_rem_euclid(&a, &b)));
        $rec.form("plain", || val(Euclid::rem_euclid(&a, &b)));
        $rec.sem = "C18";
        $rec.fam("integer", vec![int(&a), int(&b)]);
        $rec.form("div_floor", || val(Integer::div_floor(&a, &b)));
        $rec.form("mod_floor", || val(Integer::mod_floor(&a, &b)));
        $rec.form("div_rem", || wide(Integer::div_rem(&a, &b)));
        $rec.form("div_mod_floor", || wide(Integer::div_mod_floor(&a, &b)));
        $rec.form("gcd", || val(Integer::gcd(&a, &b)));
        $rec.form("lcm", || val(Integer::lcm(&a, &b)));
        $rec.form("gcd_lcm", || wide(Integer::gcd_lcm(&a, &b)));
        $rec.form("nt_div_ceil", || val(Integer::div_ceil(&a, &b)));
        $rec.form("nt_next_multiple_of", || val(Integer::next_multiple_of(&a, &b)));
        $rec.form("nt_prev_multiple_of", || val(Integer::prev_multiple_of(&a, &b)));
        $rec.form("is_multiple_of", || boolv(Integer::is_multiple_of(&a, &b)));
        $rec.form("divides", || boolv(Integer::divides(&a, &b)));
        $rec.fam("mul_add", vec![int(&a), int(&b), int(&c)]);
        $rec.form("mul_add", || val(MulAdd::mul_add(a, b, c)));
        $rec.form("mul_add_assign", || {
            let mut x = a;
            MulAddAssign::mul_add_assign(&mut x, b, c);
            val(x)
        });
    }};
}
macro_rules! nt_unary {
    ($rec:expr, $T:ty, $a:expr) => {{
        let a = $a;
        $rec.sem = "C18";
        $rec.fam("parity", vec![int(&a)]);
        $rec.form("is_even", || boolv(Integer::is_even(&a)));
        $rec.form("is_odd", || boolv(Integer::is_odd(&a)));
        $rec.form("is_zero", || boolv(Zero::is_zero(&a)));
        $rec.form("is_one", || boolv(One::is_one(&a)));
        $rec.sem = "C06";
        $rec.fam("counts", vec![int(&a)]);
        $rec.form("count_ones", || natv(PrimInt::count_ones(a) as u128));
        $rec.form("count_zeros", || natv(PrimInt::count_zeros(a) as u128));
        $rec.form("leading_zeros", || natv(PrimInt::leading_zeros(a) as u128));
        $rec.form("trailing_zeros", || natv(PrimInt::trailing_zeros(a) as u128));
        $rec.form("leading_ones", || natv(PrimInt::leading_ones(a) as u128));
        $rec.form("trailing_ones", || natv(PrimInt::trailing_ones(a) as u128));
        $rec.ev("swap_bytes", vec![int(&a)], || val(PrimInt::swap_bytes(a)));
        $rec.ev("reverse_bits", vec![int(&a)], || val(PrimInt::reverse_bits(a)));
        $rec.sem = "C15";
        $rec.fam("endian", vec![int(&a), tag(if cfg!(target_endian = "little") { "little" } else { "big" })]);
        $rec.form("to_be", || val(PrimInt::to_be(a)));
        $rec.form("to_le", || val(PrimInt::to_le(a)));
        $rec.form("from_be", || val(<$T as PrimInt>::from_be(a)));
        $rec.form("from_le", || val(<$T as PrimInt>::from_le(a)));
    }};
}
macro_rules! nt_shift {
    ($rec:expr, $x:expr, $s:expr) => {{
        let x = $x;
        let s: u32 = $s;
        $rec.sem = "C05";
        $rec.fam("shl", vec![int(&x), nat(s as u128)]);
        $rec.form("checked", || opt(CheckedShl::checked_shl(&x, s)));
        $rec.form("wrapping", || val(WrappingShl::wrapping_shl(&x, s)));
        $rec.form("op", || val(PrimInt::signed_shl(x, s)));
        $rec.form("inherent", || val(PrimInt::unsigned_shl(x, s)));
        $rec.fam("shr", vec![int(&x), nat(s as u128)]);
        $rec.form("checked", || opt(CheckedShr::checked_shr(&x, s)));
        $rec.form("wrapping", || val(WrappingShr::wrapping_shr(&x, s)));
        $rec.ev("rotate_left", vec![int(&x), nat(s as u128)], || val(PrimInt::rotate_left(x, s)));
        $rec.ev("rotate_right", vec![int(&x), nat(s as u128)], || val(PrimInt::rotate_right(x, s)));
        $rec.sem = "C18";
        // signed_shr / unsigned_shr: arithmetic / logical shift of the bit pattern, whatever the type
        $rec.fam("prim_shr", vec![int(&x), nat(s as u128)]);
        $rec.form("signed_shr", || val(PrimInt::signed_shr(x, s)));
        $rec.form("unsigned_shr", || val(PrimInt::unsigned_shr(x, s)));
    }};
}
macro_rules! nt_pow {
    ($rec:expr, $x:expr, $e:expr) => {{
        let x = $x;
        let e: u32 = $e;
        $rec.sem = "C08";
        $rec.fam("pow", vec![int(&x), nat(e as u128)]);
        $rec.form("op", || val(Pow::pow(x, e)));
        $rec.form("op_rv", || val(PrimInt::pow(x, e)));
        $rec.form("checked", || opt(x.checked_pow(e)));
    }};
}
macro_rules! nt_root {
    ($rec:expr, $x:expr, $n:expr) => {{
        let x = $x;
        let n: u32 = $n;
        $rec.sem = "C18";
        $rec.fam("root", vec![int(&x), nat(n as u128)]);
        $rec.form("nth_root", || val(Roots::nth_root(&x, n)));
        if n == 2 {
            $rec.form("sqrt", || val(Roots::sqrt(&x)));
        }
        if n == 3 {
            $rec.form("cbrt", || val(Roots::cbrt(&x)));
        }
    }};
}
macro_rules! nt_consts {
    ($rec:expr, $T:ty) => {{
        $rec.sem = "C16";
        $rec.fam("consts", vec![]);
        $rec.form("MIN", || val(<$T as Bounded>::min_value()));
        $rec.form("MAX", || val(<$T as Bounded>::max_value()));
        $rec.form("ZERO", || val(<$T as Zero>::zero()));
        $rec.form("ONE", || val(<$T as One>::one()));
        $rec.sem = "C10";
        for (s, radix) in [("101", 2u32), ("-zz", 36), ("+077", 8), ("12a", 10), ("", 10), ("ff", 16), ("00000000000000000000000000000000000ff", 16)] {
            $rec.fam("parse", vec![bytes(s.as_bytes()), nat(radix as u128)]);
            $rec.form("from_str_radix", || match <$T as Num>::from_str_radix(s, radix) {
                Ok(v) => Out::Ok_(v.enc()),
                Err(e) => Out::Err_(format!("{:?}", e.kind())),
            });
        }
    }};
}

macro_rules! fam_unsigned {
    ($U:ident, $I:ident, $D:ty) => {
        impl<const N: usize> OpsAll for $U<N> {}
        impl<const N: usize> Fam for $U<N> {
            fn c17_inherent(rec: &mut Rec, ab: &B, bb: &B) {
                let a = <Self as Bn>::dec(ab);
                let b = <Self as Bn>::dec(bb);
                fam_inherent_common!(rec, a, b);
            }
            fn c17_shifts(rec: &mut Rec, xb: &B, amt: i128) {
                fam_shifts_common!(rec, <Self as Bn>::dec(xb), amt, $U, $I);
            }
            fn c17_digit(rec: &mut Rec, xb: &B, d: u64) {
                let x = <Self as Bn>::dec(xb);
                // digit operands at the structural boundaries of the digit type: half-digit, half-digit +- 1,
                // one bit above half, top bit, extremes, small, random of a random bit length
                let bits = <$D>::BITS as u64;
                let h = bits / 2;
                let sel = d;
                let d: $D = match sel % 16 {
                    0 => 1,
                    1 => <$D>::MAX,
                    2 => <$D>::MAX - 1,
                    3 => ((1u128 << h) - 1) as $D,
                    4 => (1u128 << h) as $D,
                    5 => ((1u128 << h) + 1) as $D,
                    6 => ((1u128 << (h + 1)) - 1) as $D,
                    7 => ((1u128 << (h + 1)) - 1 - ((sel >> 8) % 5) as u128) as $D,
                    8 => (1u128 << (bits - 1)) as $D,
                    9 => ((1u128 << (bits - 1)) + 1) as $D,
                    10 => ((1u128 << (bits - 1)) - 1) as $D,
                    11 => ((sel >> 8) % 300) as $D,
                    12 | 13 => {
                        let bl = 1 + (sel >> 8) % bits;
                        (((sel >> 16) as u128 | (1u128 << 63)) >> (64 - bl) as u128) as $D
                    }
                    _ => (sel >> 7) as $D,
                };
                rec.sem = "C17";
                // Add<digit> is exercised only when the exact result is representable (decided by the harness)
                let mut db = vec![0u8; xb.len()];
                let le = (d as u64).to_le_bytes();
                for k in 0..db.len().min(8) {
                    db[k] = le[k];
                }
                rec.fam("digit_ops", vec![int(&x), nat(d as u128)]);
                if gen::add_fits(xb, &db, false) {
                    rec.form("add", || val(x + d));
                }
                rec.form("div", || val(x / d));
                rec.form("rem", || natv((x % d) as u128));
            }
            fn c18_pair(rec: &mut Rec, ab: &B, bb: &B, cb: &B) {
                nt_arith!(rec, <Self as Bn>::dec(ab), <Self as Bn>::dec(bb), <Self as Bn>::dec(cb));
            }
            fn c18_unary(rec: &mut Rec, ab: &B) {
                nt_unary!(rec, Self, <Self as Bn>::dec(ab));
            }
            fn c18_root(rec: &mut Rec, xb: &B, n: u32) {
                nt_root!(rec, <Self as Bn>::dec(xb), n);
                nt_pow!(rec, <Self as Bn>::dec(xb), n % 70);
            }
            fn c18_shift(rec: &mut Rec, xb: &B, s: u32) {
                nt_shift!(rec, <Self as Bn>::dec(xb), s);
            }
            fn c18_consts(rec: &mut Rec) {
                nt_consts!(rec, Self);
            }
        }
        impl<const N: usize> OpsAll for $I<N> {}
        impl<const N: usize> Fam for $I<N> {
            fn c17_inherent(rec: &mut Rec, ab: &B, bb: &B) {
                let a = <Self as Bn>::dec(ab);
                let b = <Self as Bn>::dec(bb);
                fam_inherent_common!(rec, a, b);
                rec.sem = "C01";
                rec.fam("neg", vec![int(&a)]);
                rec.form("op", || val(-a));
                rec.form("op_rv", || val(-&a));
                rec.form("op_inherent", || val(a.neg()));
            }
            fn c17_shifts(rec: &mut Rec, xb: &B, amt: i128) {
                fam_shifts_common!(rec, <Self as Bn>::dec(xb), amt, $U, $I);
            }
            fn c17_digit(_rec: &mut Rec, _xb: &B, _d: u64) {}
            fn c18_pair(rec: &mut Rec, ab: &B, bb: &B, cb: &B) {
                let (a, b) = (<Self as Bn>::dec(ab), <Self as Bn>::dec(bb));
                nt_arith!(rec, a, b, <Self as Bn>::dec(cb));
                rec.sem = "C18";
                rec.fam("signed", vec![int(&a), int(&b)]);
                rec.form("abs", || val(Signed::abs(&a)));
                rec.form("abs_sub", || val(Signed::abs_sub(&a, &b)));
                rec.form("signum", || val(Signed::signum(&a)));
                rec.form("is_positive", || boolv(Signed::is_positive(&a)));
                rec.form("is_negative", || boolv(Signed::is_negative(&a)));
            }
            fn c18_unary(rec: &mut Rec, ab: &B) {
                nt_unary!(rec, Self, <Self as Bn>::dec(ab));
            }
            fn c18_root(rec: &mut Rec, xb: &B, n: u32) {
                nt_root!(rec, <Self as Bn>::dec(xb), n);
                nt_pow!(rec, <Self as Bn>::dec(xb), n % 70);
            }
            fn c18_shift(rec: &mut Rec, xb: &B, s: u32) {
                nt_shift!(rec, <Self as Bn>::dec(xb), s);
            }
            fn c18_consts(rec: &mut Rec) {
                nt_consts!(rec, Self);
            }
        }
    };
}
macro_rules! fam_inherent_common {
    ($rec:expr, $a:expr, $b:expr) => {{
        let (a, b) = ($a, $b);
        $rec.sem = "C01";
        $rec.fam("add", vec![int(&a), int(&b)]);
        $rec.form("op_inherent", || val(a.add(b)));
        $rec.fam("sub", vec![int(&a), int(&b)]);
        $rec.form("op_inherent", || val(a.sub(b)));
        $rec.sem = "C02";
        $rec.fam("mul", vec![int(&a), int(&b)]);
        $rec.form("op_inherent", || val(a.mul(b)));
        $rec.sem = "C03";
        $rec.fam("div", vec![int(&a), int(&b)]);
        $rec.form("op_inherent", || val(a.div(b)));
        $rec.fam("rem", vec![int(&a), int(&b)]);
        $rec.form("op_inherent", || val(a.rem(b)));
        $rec.sem = "C06";
        $rec.fam("bitand", vec![int(&a), int(&b)]);
        $rec.form("inherent", || val(a.bitand(b)));
        $rec.fam("bitor", vec![int(&a), int(&b)]);
        $rec.form("inherent", || val(a.bitor(b)));
        $rec.fam("bitxor", vec![int(&a), int(&b)]);
        $rec.form("inherent", || val(a.bitxor(b)));
        $rec.fam("not", vec![int(&a)]);
        $rec.form("inherent", || val(a.not()));
    }};
}
macro_rules! fam_shifts_common {
    ($rec:expr, $x:expr, $amt:expr, $U:ident, $I:ident) => {{
        let x = $x;
        let amt: i128 = $amt;
        $rec.sem = "C04";
        $rec.fam("shl_ops", vec![int(&x), snat(amt)]);
        shift_all_forms!($rec, x, amt, <<, <<=; u8, u16, u32, u64, u128, usize, i8, i16, i32, i64, i128, isize);
        shift_bnum_forms!($rec, x, amt, <<, <<=; "bu2": $U<2>, "bi1": $I<1>, "bu3": $U<3>, "bi5": $I<5>);
        if let Ok(v) = u32::try_from(amt) {
            $rec.form("inherent", || val(x.shl(v)));
        }
        $rec.fam("shr_ops", vec![int(&x), snat(amt)]);
        shift_all_forms!($rec, x, amt, >>, >>=; u8, u16, u32, u64, u128, usize, i8, i16, i32, i64, i128, isize);
        shift_bnum_forms!($rec, x, amt, >>, >>=; "bu2": $U<2>, "bi1": $I<1>, "bu3": $U<3>, "bi5": $I<5>);
        if let Ok(v) = u32::try_from(amt) {
            $rec.form("inherent", || val(x.shr(v)));
        }
    }};
}
fam_unsigned!(BUint, BInt, u64);
fam_unsigned!(BUintD32, BIntD32, u32);
fam_unsigned!(BUintD16, BIntD16, u16);
fam_unsigned!(BUintD8, BIntD8, u8);

// ----------------------------------------------------------------------------------------------
// inputs

fn root_inputs(r: &mut Rng, n: usize, thorough: bool) -> Vec<(B, u32)> {
    let w = (8 * n) as u32;
    let mut v: Vec<(B, u32)> = Vec::new();
    let degs_all: Vec<u32> = vec![1, 2, 3, 4, 5, 6, 7, 8, 9, 10, 11, 13, 16, 17, 31, 32, 33, 40, 63, 64, 65, 100, 127, 128, 129, 255, 256, 1000, w - 1, w, w + 1, u32::MAX, 1u32 << 31];
    let degs: Vec<u32> = if thorough { degs_all.clone() } else {
        // always: the degrees at which n or n - 1 stops fitting a u8 / u16 digit
        let mut d = vec![1u32, 2, 3, 4, 5, 7, 40, w, u32::MAX, 255, 256, 257, 65535, 65536, 65537];
        for _ in 0..5 {
            d.push(*r.pick(&degs_all));
        }
        d.sort();
        d.dedup();
        d
    };
    for n_deg in degs {
        // x in {r^n - 1, r^n, r^n + 1} for a few r
        let rs: Vec<B> = vec![gen::small(n, 2), gen::small(n, 3), gen::small(n, 10), gen::small(n, 2 + r.below(250)), gen::fit(&gen::short(r, (n / (n_deg.min(64) as usize).max(1)).max(1).min(n)), n)];
        for rb in rs {
            if n_deg <= 4096 {
                let (p, ov) = gen::upow(&rb, n_deg, n);
                if !ov && p[n - 1] & 0x80 == 0 {
                    v.push((p.clone(), n_deg));
                    v.push((gen::sub1(&p), n_deg));
                    v.push((gen::add1(&p), n_deg));
                    if r.below(2) == 0 {
                        v.push((gen::negate(&p), n_deg));
                    }
                }
            }
        }
        v.push((gen::ones(n), n_deg));
        v.push((gen::smax(n), n_deg));
        v.push((gen::smin(n), n_deg));
        v.push((gen::zero(n), n_deg));
        v.push((gen::small(n, 1), n_deg));
        v.push((gen::random(r, n), n_deg));
        v.push((gen::short(r, n), n_deg));
    }
    v
}

struct Ctx {
    cli: Cli,
    sink: Sink,
}
thread_local! {
    static CTX: std::cell::RefCell<Option<Ctx>> = std::cell::RefCell::new(None);
}

fn run_type<T: Fam>(c: &Ctx) -> Rec
where
    for<'a> &'a T: Add<T, Output = T> + Add<&'a T, Output = T> + Sub<T, Output = T> + Sub<&'a T, Output = T> + Mul<T, Output = T> + Mul<&'a T, Output = T>
        + Div<T, Output = T> + Div<&'a T, Output = T> + Rem<T, Output = T> + Rem<&'a T, Output = T>
        + BitAnd<T, Output = T> + BitAnd<&'a T, Output = T> + BitOr<T, Output = T> + BitOr<&'a T, Output = T> + BitXor<T, Output = T> + BitXor<&'a T, Output = T>
        + Not<Output = T>,
{
    let mut rec = Rec::new();
    let thorough = c.cli.tier == "thorough";
    let n = (T::W / 8) as usize;
    let w = T::W;
    let prop = c.cli.prop.as_str();
    let mut r = Rng::new(c.cli.seed ^ ((w as u64) << 29) ^ (prop.as_bytes()[2] as u64 * 733) ^ 0x17);
    let bnd = gen::boundary(n);
    // the width sweep runs a third of the quick operand counts on each of its 132 type pairs
    let sweep = c.cli.extra.iter().any(|x| x == "--sweep");
    let scale = |q: usize, t: usize| -> usize {
        let b = if thorough { t } else if sweep { (q / 3).max(3) } else { q };
        if n >= 64 {
            (b / 3).max(if sweep { 2 } else { 6 })
        } else {
            b
        }
    };
    match prop {
        "C17" => {
            let mut ps = gen::pairs(&mut r, n, scale(45, 400));
            // small operands: products and quotients that do not overflow
            for _ in 0..scale(15, 150) {
                ps.push((gen::fit(&gen::short(&mut r, (n / 2).max(1)), n), gen::small(n, r.below(300))));
            }
            if sweep {
                // the fixed boundary part of gen::pairs is large: every fifth pair, rotating with the seed
                let off = (c.cli.seed % 5) as usize;
                ps = ps.into_iter().skip(off).step_by(5).collect();
            }
            for (a, b) in ps.iter() {
                c17_generic::<T>(&mut rec, a, b);
                T::c17_inherent(&mut rec, a, b);
            }
            let amts: Vec<i128> = vec![0, 1, 7, 8, (w - 1) as i128, w as i128, (w + 1) as i128, -1, 255, 256, -128, 65535, i32::MAX as i128, u32::MAX as i128, (1i128 << 32), (1i128 << 32) + 3, -(1i128 << 32) + 3, u64::MAX as i128, i64::MIN as i128, i128::MAX, i128::MIN, (1i128 << 64) + 1];
            for a in amts.iter() {
                let x = gen::any(&mut r, n, &bnd);
                T::c17_shifts(&mut rec, &x, *a);
            }
            for _ in 0..scale(10, 120) {
                let x = gen::any(&mut r, n, &bnd);
                let a = r.below(w as u64) as i128;
                T::c17_shifts(&mut rec, &x, a);
            }
            // folds of length 0..5
            for len in 0..=5usize {
                for _ in 0..scale(4, 30) {
                    let items: Vec<B> = (0..len)
                        .map(|_| match r.below(4) {
                            0 => gen::any(&mut r, n, &bnd),
                            1 => gen::small(n, r.below(20)),
                            2 => gen::negate(&gen::small(n, r.below(20))),
                            _ => gen::fit(&gen::short(&mut r, (n / 4).max(1)), n),
                        })
                        .collect();
                    c17_fold::<T>(&mut rec, &items);
                }
            }
            // long folds (more elements than a digit has values): per-position accumulators and deferred carries
            // only go wrong past 2^8 / 2^16 additions into one digit position; items are short, so that the exact
            // sum is representable, and have all-ones low bytes, so that every low column overflows
            if n >= 3 {
                for len in if sweep { vec![258usize] } else { vec![258usize, 300, if thorough { 1000 } else { 270 }] } {
                    let k = (n / 2).max(1);
                    let items: Vec<B> = (0..len)
                        .map(|i| {
                            let mut x = gen::zero(n);
                            for t in 0..k.min(n - 2) {
                                x[t] = if (i + t) % 7 == 0 { (r.next() & 0xff) as u8 } else { 0xff };
                            }
                            x
                        })
                        .collect();
                    c17_fold::<T>(&mut rec, &items);
                }
                // a long product that stays representable: ones, a few twos and minus ones
                let items: Vec<B> = (0..300usize).map(|i| if i % 97 == 5 { gen::small(n, 2) } else if i % 89 == 7 && T::S { gen::negate(&gen::small(n, 1)) } else { gen::small(n, 1) }).collect();
                c17_fold::<T>(&mut rec, &items);
            }
            for _ in 0..scale(60, 400) {
                let x = match r.below(3) {
                    0 => gen::extreme(&mut r, n),
                    _ => gen::any(&mut r, n, &bnd),
                };
                let d = r.next();
                T::c17_digit(&mut rec, &x, d);
            }
        }
        "C18" => {
            let mut ps = gen::pairs(&mut r, n, scale(40, 400));
            for _ in 0..scale(20, 200) {
                // common factors, exact multiples
                let g = gen::fit(&gen::short(&mut r, (n / 3).max(1)), n);
                let a = gen::fit(&gen::umul(&gen::trim(g.clone()), &gen::trim(gen::small(n, 1 + r.below(1000)))), n);
                let b = gen::fit(&gen::umul(&gen::trim(g.clone()), &gen::trim(gen::small(n, 1 + r.below(1000)))), n);
                ps.push((if r.below(3) == 0 { gen::negate(&a) } else { a }, if r.below(3) == 0 { gen::negate(&b) } else { b }));
            }
            // near-full-size operands with a large common factor: bit lengths adding up to about BITS + 1
            for _ in 0..scale(16, 150) {
                let gk = 1 + r.below((n as u64 / 2).max(1)) as usize;
                let g = gen::trim(gen::short(&mut r, gk));
                if g.is_empty() {
                    continue;
                }
                let rest = 8 * n + 1 + r.below(3) as usize; // total bits of a and b together: BITS+1 .. BITS+3
                let gb = 8 * g.len();
                if rest <= 2 * gb + 2 {
                    continue;
                }
                let pb = (rest - 2 * gb) / 2;
                let qb = rest - 2 * gb - pb;
                let mk = |r: &mut Rng, bits: usize| -> B {
                    let mut v = gen::random(r, bits / 8 + 1);
                    let top = bits % 8;
                    let l = v.len();
                    v[l - 1] = if top == 0 { 0 } else { (v[l - 1] & ((1u16 << top) - 1) as u8) | (1u8 << (top - 1)) };
                    gen::trim(v)
                };
                let pa = gen::umul(&g, &mk(&mut r, pb.max(1)));
                let pq = gen::umul(&g, &mk(&mut r, qb.max(1)));
                if gen::trim(pa.clone()).len() <= n && gen::trim(pq.clone()).len() <= n {
                    ps.push((gen::fit(&gen::trim(pa), n), gen::fit(&gen::trim(pq), n)));
                }
            }
            for (a, b) in ps.iter() {
                let cc = gen::any(&mut r, n, &bnd);
                T::c18_pair(&mut rec, a, b, &cc);
            }
            for a in gen::values(&mut r, n, scale(20, 200)) {
                T::c18_unary(&mut rec, &a);
            }
            for (x, deg) in root_inputs(&mut r, n, thorough) {
                T::c18_root(&mut rec, &x, deg);
            }
            for _ in 0..scale(25, 200) {
                let x = gen::any(&mut r, n, &bnd);
                let s = match r.below(4) {
                    0 => r.below(2 * w as u64) as u32,
                    _ => r.below(w as u64) as u32,
                };
                T::c18_shift(&mut rec, &x, s);
            }
            T::c18_consts(&mut rec);
        }
        _ => panic!("unknown property"),
    }
    rec
}

macro_rules! run_bnum {
    ($w:literal; $(($U:ty, $I:ty)),+) => {
        CTX.with(|c| {
            let mut c = c.borrow_mut();
            let c = c.as_mut().unwrap();
            if c.cli.only_width.map_or(true, |x| x == $w) {
                let mut us: Vec<(&'static str, Rec)> = Vec::new();
                let mut is: Vec<(&'static str, Rec)> = Vec::new();
                $(
                    if c.cli.prop == "C17" {
                        // digit operands differ per digit type: not merged
                        let ru = run_type::<$U>(c);
                        let ri = run_type::<$I>(c);
                        c.sink.merge($w, false, "bnum", vec![(<$U as Bn>::DT, ru)]);
                        c.sink.merge($w, true, "bnum", vec![(<$I as Bn>::DT, ri)]);
                    } else {
                        us.push((<$U as Bn>::DT, run_type::<$U>(c)));
                        is.push((<$I as Bn>::DT, run_type::<$I>(c)));
                    }
                )+
                c.sink.merge($w, false, "bnum", us);
                c.sink.merge($w, true, "bnum", is);
            }
        });
    };
}

fn main() {
    install_hook();
    let cli = parse_cli();
    let prop = cli.prop.clone();
    let sink = Sink::new(&cli.out, &prop);
    CTX.with(|c| *c.borrow_mut() = Some(Ctx { cli, sink }));
    the_matrix!(run_bnum);
    let ctx = CTX.with(|c| c.borrow_mut().take().unwrap());
    let (n, splits) = ctx.sink.finish();
    eprintln!("recorded {} events, {} digit-type splits, mode {}", n, splits, MODE);
}
