//! Conformance harness for bnum: executes the real library and records one event per call
//! (or per call family) as ndjson, to be validated by TLC against spec/trace/Trace.tla, and
//! replays TLC-generated tables against the real library.
//!
//! Trusted base on the Rust side: `digits()` / `from_digits` / `to_bits` / `from_bits`,
//! primitive `to_le_bytes`, and `catch_unwind`.  No bnum method under test is used to prepare an
//! operand or to encode a result.

pub use bnum::{BInt, BIntD16, BIntD32, BIntD8, BUint, BUintD16, BUintD32, BUintD8};
use std::fmt::Write as _;
use std::io::Write as _;
use std::panic::{catch_unwind, AssertUnwindSafe};

pub mod gen;
pub mod fmtgen;

pub const MODE: &str = if cfg!(debug_assertions) { "debug" } else { "release" };

// ---------------------------------------------------------------------------------------------
// values <-> canonical little-endian bytes

pub trait Bn: Copy + 'static {
    const W: u32;
    const S: bool;
    const DT: &'static str;
    fn enc(&self) -> Vec<u8>;
    fn dec(b: &[u8]) -> Self;
}

macro_rules! bn_impl {
    ($U:ident, $I:ident, $D:ty, $dt:literal) => {
        impl<const N: usize> Bn for $U<N> {
            const W: u32 = (N * core::mem::size_of::<$D>() * 8) as u32;
            const S: bool = false;
            const DT: &'static str = $dt;
            fn enc(&self) -> Vec<u8> {
                self.digits().iter().flat_map(|d| d.to_le_bytes()).collect()
            }
            fn dec(b: &[u8]) -> Self {
                const SZ: usize = core::mem::size_of::<$D>();
                assert_eq!(b.len(), N * SZ);
                let mut ds = [0 as $D; N];
                for i in 0..N {
                    let mut x = [0u8; SZ];
                    x.copy_from_slice(&b[i * SZ..(i + 1) * SZ]);
                    ds[i] = <$D>::from_le_bytes(x);
                }
                Self::from_digits(ds)
            }
        }
        impl<const N: usize> Bn for $I<N> {
            const W: u32 = (N * core::mem::size_of::<$D>() * 8) as u32;
            const S: bool = true;
            const DT: &'static str = $dt;
            fn enc(&self) -> Vec<u8> {
                Bn::enc(&self.to_bits())
            }
            fn dec(b: &[u8]) -> Self {
                Self::from_bits(<$U<N> as Bn>::dec(b))
            }
        }
    };
}
bn_impl!(BUint, BInt, u64, "u64");
bn_impl!(BUintD32, BIntD32, u32, "u32");
bn_impl!(BUintD16, BIntD16, u16, "u16");
bn_impl!(BUintD8, BIntD8, u8, "u8");

macro_rules! bn_prim {
    ($($t:ty, $s:expr);*) => {$(
        impl Bn for $t {
            const W: u32 = <$t>::BITS;
            const S: bool = $s;
            const DT: &'static str = "prim";
            fn enc(&self) -> Vec<u8> { self.to_le_bytes().to_vec() }
            fn dec(b: &[u8]) -> Self {
                let mut x = [0u8; core::mem::size_of::<$t>()];
                x.copy_from_slice(b);
                <$t>::from_le_bytes(x)
            }
        }
    )*};
}
bn_prim!(u8,false; u16,false; u32,false; u64,false; u128,false; i8,true; i16,true; i32,true; i64,true; i128,true);

pub fn wsigned<T: Bn>(_: &T) -> bool {
    T::S
}
pub fn wof<T: Bn>(_: &T) -> u32 {
    T::W
}

/// canonical little-endian bytes (no most-significant zero byte) of a scalar natural
pub fn nat_bytes(mut n: u128) -> Vec<u8> {
    let mut v = Vec::new();
    while n > 0 {
        v.push((n & 0xff) as u8);
        n >>= 8;
    }
    v
}

// ---------------------------------------------------------------------------------------------
// arguments and outcomes

#[derive(Clone, PartialEq, Eq, Debug)]
pub enum Arg {
    Int { w: u32, s: bool, v: Vec<u8> },
    Nat(Vec<u8>),
    /// a possibly negative scalar (shift amounts of signed primitive types): sign and magnitude
    SNat(bool, Vec<u8>),
    Bool(bool),
    Bytes(Vec<u8>),
    Str(String),
}

pub fn int<T: Bn>(x: &T) -> Arg {
    Arg::Int { w: T::W, s: T::S, v: x.enc() }
}
pub fn nat(n: u128) -> Arg {
    Arg::Nat(nat_bytes(n))
}
pub fn snat(n: i128) -> Arg {
    Arg::SNat(n < 0, nat_bytes(n.unsigned_abs()))
}
pub fn boolean(b: bool) -> Arg {
    Arg::Bool(b)
}
pub fn bytes(b: &[u8]) -> Arg {
    Arg::Bytes(b.to_vec())
}
pub fn tag(s: &str) -> Arg {
    Arg::Str(s.to_string())
}

#[derive(Clone, PartialEq, Eq, Debug)]
pub enum Out {
    Val(Vec<u8>),
    Pair(Vec<u8>, bool),
    Some_(Vec<u8>),
    None_,
    Panic,
    Bool(bool),
    Nat(Vec<u8>),
    SomeNat(Vec<u8>),
    Ord(u8),
    Wide(Vec<u8>, Vec<u8>),
    Bytes(Vec<u8>),
    SomeBytes(Vec<u8>),
    Ok_(Vec<u8>),
    Err_(String),
    /// several named observations made by one call (e.g. value and residual state)
    Rec(Vec<(String, Out)>),
    /// a list of small natural numbers (histograms)
    Ints(Vec<u64>),
}

pub fn val<T: Bn>(x: T) -> Out {
    Out::Val(x.enc())
}
pub fn pairf<T: Bn>(p: (T, bool)) -> Out {
    Out::Pair(p.0.enc(), p.1)
}
pub fn opt<T: Bn>(o: Option<T>) -> Out {
    match o {
        Some(x) => Out::Some_(x.enc()),
        None => Out::None_,
    }
}
pub fn wide<T: Bn>(p: (T, T)) -> Out {
    Out::Wide(p.0.enc(), p.1.enc())
}
pub fn boolv(b: bool) -> Out {
    Out::Bool(b)
}
pub fn natv(n: u128) -> Out {
    Out::Nat(nat_bytes(n))
}
pub fn optnat(o: Option<u128>) -> Out {
    match o {
        Some(n) => Out::SomeNat(nat_bytes(n)),
        None => Out::None_,
    }
}
pub fn ordv(o: core::cmp::Ordering) -> Out {
    Out::Ord(match o {
        core::cmp::Ordering::Less => 0,
        core::cmp::Ordering::Equal => 1,
        core::cmp::Ordering::Greater => 2,
    })
}
pub fn bytesv(b: &[u8]) -> Out {
    Out::Bytes(b.to_vec())
}
pub fn optbytes(o: Option<Vec<u8>>) -> Out {
    match o {
        Some(b) => Out::SomeBytes(b),
        None => Out::None_,
    }
}

thread_local! {
    static LAST_PANIC: std::cell::RefCell<String> = std::cell::RefCell::new(String::new());
}

/// install a silent panic hook that remembers the message
pub fn install_hook() {
    std::panic::set_hook(Box::new(|info| {
        let msg = if let Some(s) = info.payload().downcast_ref::<&str>() {
            s.to_string()
        } else if let Some(s) = info.payload().downcast_ref::<String>() {
            s.clone()
        } else {
            "<non-string panic>".to_string()
        };
        LAST_PANIC.with(|p| *p.borrow_mut() = msg);
    }));
    install_watchdog();
}
pub fn last_panic() -> String {
    LAST_PANIC.with(|p| p.borrow().clone())
}

// ---------------------------------------------------------------------------------------------
// watchdog: a call into the library that does not return is a result too ("no result").  Every recorded call bumps a
// progress counter; a watcher thread that sees no progress for HANG_SECS seconds while a call is in progress writes
// the call to the breadcrumb file (VERIF_CRUMB, with "hang": true) and ends the process with exit code 97, which the
// orchestrator reports as a violation naming that call.

static SKIP_FORMS: std::sync::OnceLock<Option<String>> = std::sync::OnceLock::new();
pub const HANG_SECS: u64 = 90;
pub const HANG_EXIT: i32 = 97;
static PROGRESS: std::sync::atomic::AtomicU64 = std::sync::atomic::AtomicU64::new(0);
static IN_CALL: std::sync::atomic::AtomicBool = std::sync::atomic::AtomicBool::new(false);
static CUR_CALL: std::sync::Mutex<Option<(String, String, Vec<Arg>, String)>> = std::sync::Mutex::new(None); // (sem, op, args, form)

fn watch_family(sem: &str, op: &str, args: &[Arg]) {
    if let Ok(mut c) = CUR_CALL.lock() {
        *c = Some((sem.to_string(), op.to_string(), args.to_vec(), String::new()));
    }
}
fn watch_enter(form: &str) {
    if let Ok(mut c) = CUR_CALL.lock() {
        if let Some(x) = c.as_mut() {
            x.3.clear();
            x.3.push_str(form);
        }
    }
    PROGRESS.fetch_add(1, std::sync::atomic::Ordering::SeqCst);
    IN_CALL.store(true, std::sync::atomic::Ordering::SeqCst);
}
fn watch_leave() {
    IN_CALL.store(false, std::sync::atomic::Ordering::SeqCst);
    PROGRESS.fetch_add(1, std::sync::atomic::Ordering::SeqCst);
}
/// a call made outside `Rec` (the machine replayer): `desc` names it
pub fn watched<T, F: FnOnce() -> T>(sem: &str, op: &str, desc: &str, f: F) -> T {
    watch_family(sem, op, &[Arg::Str(desc.to_string())]);
    watch_enter("step");
    let r = f();
    watch_leave();
    r
}
pub fn install_watchdog() {
    use std::sync::atomic::Ordering;
    std::thread::spawn(|| {
        let mut last = PROGRESS.load(Ordering::SeqCst);
        let mut stalled = 0u64;
        loop {
            std::thread::sleep(std::time::Duration::from_secs(2));
            let now = PROGRESS.load(Ordering::SeqCst);
            if now != last || !IN_CALL.load(Ordering::SeqCst) {
                last = now;
                stalled = 0;
                continue;
            }
            stalled += 2;
            if stalled >= HANG_SECS {
                let mut l = String::new();
                if let Ok(c) = CUR_CALL.lock() {
                    if let Some((sem, op, args, form)) = c.as_ref() {
                        let _ = write!(l, "{{\"p\":\"{}\",\"op\":\"{}\",\"form\":\"{}\",\"mode\":\"{}\",\"hang\":true,\"a\":[", sem, op, form, MODE);
                        for (i, a) in args.iter().enumerate() {
                            if i > 0 {
                                l.push(',');
                            }
                            a.json(&mut l);
                        }
                        l.push_str("]}\n");
                    }
                }
                if let Ok(path) = std::env::var("VERIF_CRUMB") {
                    let _ = std::fs::write(path, &l);
                }
                eprintln!("HANG: no result within {} s: {}", HANG_SECS, l.trim());
                std::process::exit(HANG_EXIT);
            }
        }
    });
}

/// run a call; a panic in the code under test is data
pub fn catch<F: FnOnce() -> Out>(f: F) -> Out {
    match catch_unwind(AssertUnwindSafe(f)) {
        Ok(o) => o,
        Err(_) => Out::Panic,
    }
}

// ---------------------------------------------------------------------------------------------
// JSON

fn jbytes(s: &mut String, b: &[u8]) {
    s.push('[');
    for (i, x) in b.iter().enumerate() {
        if i > 0 {
            s.push(',');
        }
        let _ = write!(s, "{}", x);
    }
    s.push(']');
}
fn jstr(s: &mut String, t: &str) {
    s.push('"');
    for c in t.chars() {
        match c {
            '"' => s.push_str("\\\""),
            '\\' => s.push_str("\\\\"),
            c if (c as u32) < 0x20 => {
                let _ = write!(s, "\\u{:04x}", c as u32);
            }
            c => s.push(c),
        }
    }
    s.push('"');
}
impl Arg {
    pub fn json(&self, s: &mut String) {
        match self {
            Arg::Int { w, s: sg, v } => {
                let _ = write!(s, "{{\"t\":\"i\",\"w\":{},\"s\":{},\"v\":", w, sg);
                jbytes(s, v);
                s.push('}');
            }
            Arg::Nat(v) => {
                s.push_str("{\"t\":\"n\",\"v\":");
                jbytes(s, v);
                s.push('}');
            }
            Arg::SNat(n, v) => {
                let _ = write!(s, "{{\"t\":\"z\",\"neg\":{},\"v\":", n);
                jbytes(s, v);
                s.push('}');
            }
            Arg::Bool(b) => {
                let _ = write!(s, "{{\"t\":\"b\",\"b\":{}}}", b);
            }
            Arg::Bytes(v) => {
                s.push_str("{\"t\":\"s\",\"v\":");
                jbytes(s, v);
                s.push('}');
            }
            Arg::Str(t) => {
                s.push_str("{\"t\":\"tag\",\"v\":");
                jstr(s, t);
                s.push('}');
            }
        }
    }
}
impl Out {
    pub fn json(&self, s: &mut String) {
        match self {
            Out::Val(v) => {
                s.push_str("{\"k\":\"val\",\"v\":");
                jbytes(s, v);
                s.push('}');
            }
            Out::Pair(v, f) => {
                s.push_str("{\"k\":\"pair\",\"v\":");
                jbytes(s, v);
                let _ = write!(s, ",\"f\":{}}}", f);
            }
            Out::Some_(v) => {
                s.push_str("{\"k\":\"some\",\"v\":");
                jbytes(s, v);
                s.push('}');
            }
            Out::None_ => s.push_str("{\"k\":\"none\"}"),
            Out::Panic => s.push_str("{\"k\":\"panic\"}"),
            Out::Bool(b) => {
                let _ = write!(s, "{{\"k\":\"bool\",\"b\":{}}}", b);
            }
            Out::Nat(v) => {
                s.push_str("{\"k\":\"nat\",\"v\":");
                jbytes(s, v);
                s.push('}');
            }
            Out::SomeNat(v) => {
                s.push_str("{\"k\":\"somenat\",\"v\":");
                jbytes(s, v);
                s.push('}');
            }
            Out::Ord(c) => {
                let _ = write!(s, "{{\"k\":\"ord\",\"c\":{}}}", c);
            }
            Out::Wide(lo, hi) => {
                s.push_str("{\"k\":\"wide\",\"lo\":");
                jbytes(s, lo);
                s.push_str(",\"hi\":");
                jbytes(s, hi);
                s.push('}');
            }
            Out::Bytes(v) => {
                s.push_str("{\"k\":\"bytes\",\"v\":");
                jbytes(s, v);
                s.push('}');
            }
            Out::SomeBytes(v) => {
                s.push_str("{\"k\":\"somebytes\",\"v\":");
                jbytes(s, v);
                s.push('}');
            }
            Out::Ok_(v) => {
                s.push_str("{\"k\":\"ok\",\"v\":");
                jbytes(s, v);
                s.push('}');
            }
            Out::Err_(e) => {
                s.push_str("{\"k\":\"err\",\"e\":");
                jstr(s, e);
                s.push('}');
            }
            Out::Ints(v) => {
                s.push_str("{\"k\":\"ints\",\"v\":[");
                for (i, x) in v.iter().enumerate() {
                    if i > 0 {
                        s.push(',');
                    }
                    let _ = write!(s, "{}", x);
                }
                s.push_str("]}");
            }
            Out::Rec(fs) => {
                s.push_str("{\"k\":\"rec\"");
                for (n, o) in fs {
                    s.push(',');
                    jstr(s, n);
                    s.push(':');
                    o.json(s);
                }
                s.push('}');
            }
        }
    }
}

// ---------------------------------------------------------------------------------------------
// events

/// One call family on one operand tuple: the outcomes of every form of the operation.
#[derive(Clone, Debug)]
pub struct RawEv {
    pub sem: &'static str,
    pub op: &'static str,
    pub args: Vec<Arg>,
    pub forms: Vec<(&'static str, Out, String)>, // (form, outcome, panic message)
}

/// Collects the events of one concrete type for one input list.
pub struct Rec {
    pub evs: Vec<RawEv>,
    /// the property whose semantics judges the following events
    pub sem: &'static str,
}

impl Rec {
    pub fn new() -> Self {
        Rec { evs: Vec::new(), sem: "" }
    }
    /// start a family
    pub fn fam(&mut self, op: &'static str, args: Vec<Arg>) {
        watch_family(self.sem, op, &args);
        self.evs.push(RawEv { sem: self.sem, op, args, forms: Vec::new() });
    }
    /// add one form's outcome to the current family
    pub fn form<F: FnOnce() -> Out>(&mut self, form: &'static str, f: F) {
        // after a hang the orchestrator records again without the form that hung (VERIF_SKIP = "op/form,op/form")
        if let Some(skip) = SKIP_FORMS.get_or_init(|| std::env::var("VERIF_SKIP").ok()) {
            let e = self.evs.last().unwrap();
            if skip.split(',').any(|x| x.split_once('/').map_or(false, |(o, f)| o == e.op && f == form)) {
                return;
            }
        }
        watch_enter(form);
        let o = catch(f);
        watch_leave();
        let pm = if o == Out::Panic { last_panic() } else { String::new() };
        self.evs.last_mut().unwrap().forms.push((form, o, pm));
    }
    /// like `form`, for calls into `unsafe fn`s whose precondition the harness has established itself:
    /// a defect behind such a call can abort the process (a failed `unsafe` precondition check does
    /// not unwind), so the call in progress is first written to the breadcrumb file named by
    /// VERIF_CRUMB; the orchestrator reports an abort with that call as a violation.
    pub fn form_unsafe<F: FnOnce() -> Out>(&mut self, form: &'static str, f: F) {
        if std::env::var("VERIF_NO_UNSAFE").is_ok() {
            return; // second pass after an abort: the unsafe forms are left out, everything else is still judged
        }
        if let Ok(path) = std::env::var("VERIF_CRUMB") {
            let e = self.evs.last().unwrap();
            let mut l = String::new();
            let _ = write!(l, "{{\"p\":\"{}\",\"op\":\"{}\",\"form\":\"{}\",\"mode\":\"{}\",\"a\":[", e.sem, e.op, form, MODE);
            for (i, a) in e.args.iter().enumerate() {
                if i > 0 {
                    l.push(',');
                }
                a.json(&mut l);
            }
            l.push_str("]}\n");
            let _ = std::fs::write(path, l);
        }
        self.form(form, f);
    }
    /// a single-form event
    pub fn ev<F: FnOnce() -> Out>(&mut self, op: &'static str, args: Vec<Arg>, f: F) {
        self.fam(op, args);
        self.form("plain", f);
    }
}

/// Writes merged events (one line per distinct outcome group) as ndjson.
pub struct Sink {
    out: std::io::BufWriter<Box<dyn std::io::Write>>,
    pub prop: String,
    pub n: u64,
    pub splits: u64,
}

impl Sink {
    pub fn new(path: &str, prop: &str) -> Self {
        let w: Box<dyn std::io::Write> = if path == "-" {
            Box::new(std::io::stdout())
        } else {
            Box::new(std::fs::File::create(path).expect("create output"))
        };
        let prop = CHK_OVERRIDE.get().map(|x| x.as_str()).unwrap_or(prop);
        Sink { out: std::io::BufWriter::with_capacity(1 << 20, w), prop: prop.to_string(), n: 0, splits: 0 }
    }

    /// Merge the per-digit-type recordings of one (width, signedness) and write them.
    /// All recordings must contain the same calls in the same order (same inputs); outcomes that
    /// differ between digit types are written as separate lines, each with its list of digit types.
    pub fn merge(&mut self, w: u32, s: bool, imp: &str, recs: Vec<(&'static str, Rec)>) {
        if recs.is_empty() {
            return;
        }
        let n = recs[0].1.evs.len();
        for (dt, r) in &recs {
            assert_eq!(r.evs.len(), n, "driver produced different call counts for digit type {}", dt);
        }
        for j in 0..n {
            let base = &recs[0].1.evs[j];
            let mut groups: Vec<(Vec<&'static str>, &RawEv)> = Vec::new();
            for (dt, r) in &recs {
                let e = &r.evs[j];
                assert_eq!(e.op, base.op, "call order differs between digit types");
                assert_eq!(e.args, base.args, "arguments differ between digit types for {}", e.op);
                let mut found = false;
                for g in groups.iter_mut() {
                    if g.1.forms.len() == e.forms.len()
                        && g.1.forms.iter().zip(e.forms.iter()).all(|(a, b)| a.0 == b.0 && a.1 == b.1)
                    {
                        g.0.push(dt);
                        found = true;
                        break;
                    }
                }
                if !found {
                    groups.push((vec![dt], e));
                }
            }
            if groups.len() > 1 {
                self.splits += 1;
            }
            let ng = groups.len();
            for (dts, e) in groups {
                self.write_event(w, s, imp, &dts, ng, e);
            }
        }
    }

    fn write_event(&mut self, w: u32, s: bool, imp: &str, dts: &[&'static str], ngroups: usize, e: &RawEv) {
        self.n += 1;
        let mut l = String::with_capacity(256);
        let _ = write!(
            l,
            "{{\"i\":{},\"chk\":\"{}\",\"p\":\"{}\",\"op\":\"{}\",\"w\":{},\"s\":{},\"mode\":\"{}\",\"impl\":\"{}\",\"ng\":{},\"dts\":[",
            self.n, self.prop, e.sem, e.op, w, s, MODE, imp, ngroups
        );
        for (i, d) in dts.iter().enumerate() {
            if i > 0 {
                l.push(',');
            }
            jstr(&mut l, d);
        }
        l.push_str("],\"a\":[");
        for (i, a) in e.args.iter().enumerate() {
            if i > 0 {
                l.push(',');
            }
            a.json(&mut l);
        }
        l.push_str("],\"fo\":{");
        for (i, (f, o, _)) in e.forms.iter().enumerate() {
            if i > 0 {
                l.push(',');
            }
            jstr(&mut l, f);
            l.push(':');
            o.json(&mut l);
        }
        l.push_str("},\"pm\":{");
        let mut first = true;
        for (f, o, pm) in e.forms.iter() {
            if *o == Out::Panic {
                if !first {
                    l.push(',');
                }
                first = false;
                jstr(&mut l, f);
                l.push(':');
                jstr(&mut l, pm);
            }
        }
        l.push_str("}}\n");
        self.out.write_all(l.as_bytes()).expect("write");
    }

    pub fn finish(mut self) -> (u64, u64) {
        self.out.flush().expect("flush");
        (self.n, self.splits)
    }
}

// ---------------------------------------------------------------------------------------------
// the type matrix: for each width, the instantiations exercised (unsigned, signed, digit tag)

#[macro_export]
macro_rules! for_matrix {
    ($mac:ident) => {
        $mac!(8; (BUintD8<1>, BIntD8<1>));
        $mac!(16; (BUintD8<2>, BIntD8<2>), (BUintD16<1>, BIntD16<1>));
        $mac!(24; (BUintD8<3>, BIntD8<3>));
        $mac!(32; (BUintD8<4>, BIntD8<4>), (BUintD16<2>, BIntD16<2>), (BUintD32<1>, BIntD32<1>));
        $mac!(40; (BUintD8<5>, BIntD8<5>));
        $mac!(48; (BUintD8<6>, BIntD8<6>), (BUintD16<3>, BIntD16<3>));
        $mac!(56; (BUintD8<7>, BIntD8<7>));
        $mac!(64; (BUintD8<8>, BIntD8<8>), (BUintD16<4>, BIntD16<4>), (BUintD32<2>, BIntD32<2>), (BUint<1>, BInt<1>));
        $mac!(72; (BUintD8<9>, BIntD8<9>));
        $mac!(88; (BUintD8<11>, BIntD8<11>));
        $mac!(96; (BUintD8<12>, BIntD8<12>), (BUintD16<6>, BIntD16<6>), (BUintD32<3>, BIntD32<3>));
        $mac!(112; (BUintD16<7>, BIntD16<7>), (BUintD8<14>, BIntD8<14>));
        $mac!(120; (BUintD8<15>, BIntD8<15>));
        $mac!(128; (BUintD8<16>, BIntD8<16>), (BUintD16<8>, BIntD16<8>), (BUintD32<4>, BIntD32<4>), (BUint<2>, BInt<2>));
        $mac!(136; (BUintD8<17>, BIntD8<17>));
        $mac!(192; (BUintD8<24>, BIntD8<24>), (BUintD16<12>, BIntD16<12>), (BUintD32<6>, BIntD32<6>), (BUint<3>, BInt<3>));
        $mac!(224; (BUintD32<7>, BIntD32<7>), (BUintD16<14>, BIntD16<14>));
        $mac!(256; (BUintD8<32>, BIntD8<32>), (BUintD16<16>, BIntD16<16>), (BUintD32<8>, BIntD32<8>), (BUint<4>, BInt<4>));
        $mac!(320; (BUintD8<40>, BIntD8<40>), (BUintD16<20>, BIntD16<20>), (BUintD32<10>, BIntD32<10>), (BUint<5>, BInt<5>));
        $mac!(448; (BUint<7>, BInt<7>), (BUintD32<14>, BIntD32<14>));
        $mac!(512; (BUintD32<16>, BIntD32<16>), (BUint<8>, BInt<8>));
        $mac!(1024; (BUint<16>, BInt<16>));
    };
}

/// very wide types (2080 and 8192 bits): a handful of events per property, because every event costs the
/// specification a few hundred milliseconds at these sizes
#[macro_export]
macro_rules! for_giants {
    ($mac:ident) => {
        $mac!(2080; (BUintD8<260>, BIntD8<260>), (BUintD16<130>, BIntD16<130>), (BUintD32<65>, BIntD32<65>));
        $mac!(8192; (BUintD8<1024>, BIntD8<1024>), (BUint<128>, BInt<128>));
    };
}

/// The width sweep: every digit count N = 1..33 of every digit type -- 132 unsigned/signed type pairs at 84
/// widths from 8 to 2112 bits -- split by width into four chunks (`for_sweep0!` .. `for_sweep3!`, the chunk of
/// a width w = 8x is (x + x/4 + x/16 + x/64) mod 4, which gives every chunk all four digit types and all residues of N) so that the four `<recorder>_s<k>` binaries compile in parallel.  The properties
/// quantify over "every digit count N >= 1"; `for_matrix!` samples 22 widths densely, the sweep runs the same
/// drivers with the quick operand sets on a complete initial segment of digit counts, so that a slip tied to
/// one digit count, one residue class of N or one (digit type, N) relation has nowhere to hide below N = 34.
#[macro_export]
macro_rules! for_sweep0 {
    ($mac:ident) => {
        $mac!(56; (BUintD8<7>, BIntD8<7>));
        $mac!(80; (BUintD8<10>, BIntD8<10>), (BUintD16<5>, BIntD16<5>));
        $mac!(104; (BUintD8<13>, BIntD8<13>));
        $mac!(152; (BUintD8<19>, BIntD8<19>));
        $mac!(176; (BUintD8<22>, BIntD8<22>), (BUintD16<11>, BIntD16<11>));
        $mac!(200; (BUintD8<25>, BIntD8<25>));
        $mac!(224; (BUintD8<28>, BIntD8<28>), (BUintD16<14>, BIntD16<14>), (BUintD32<7>, BIntD32<7>));
        $mac!(272; (BUintD16<17>, BIntD16<17>));
        $mac!(320; (BUintD16<20>, BIntD16<20>), (BUintD32<10>, BIntD32<10>), (BUint<5>, BInt<5>));
        $mac!(416; (BUintD16<26>, BIntD16<26>), (BUintD32<13>, BIntD32<13>));
        $mac!(496; (BUintD16<31>, BIntD16<31>));
        $mac!(608; (BUintD32<19>, BIntD32<19>));
        $mac!(704; (BUintD32<22>, BIntD32<22>), (BUint<11>, BInt<11>));
        $mac!(800; (BUintD32<25>, BIntD32<25>));
        $mac!(896; (BUintD32<28>, BIntD32<28>), (BUint<14>, BInt<14>));
        $mac!(1088; (BUint<17>, BInt<17>));
        $mac!(1280; (BUint<20>, BInt<20>));
        $mac!(1664; (BUint<26>, BInt<26>));
        $mac!(1984; (BUint<31>, BInt<31>));
        $mac!(2048; (BUint<32>, BInt<32>));
    };
}
/// chunk 1 of the width sweep (see `for_sweep0!`)
#[macro_export]
macro_rules! for_sweep1 {
    ($mac:ident) => {
        $mac!(8; (BUintD8<1>, BIntD8<1>));
        $mac!(32; (BUintD8<4>, BIntD8<4>), (BUintD16<2>, BIntD16<2>), (BUintD32<1>, BIntD32<1>));
        $mac!(88; (BUintD8<11>, BIntD8<11>));
        $mac!(112; (BUintD8<14>, BIntD8<14>), (BUintD16<7>, BIntD16<7>));
        $mac!(128; (BUintD8<16>, BIntD8<16>), (BUintD16<8>, BIntD16<8>), (BUintD32<4>, BIntD32<4>), (BUint<2>, BInt<2>));
        $mac!(184; (BUintD8<23>, BIntD8<23>));
        $mac!(208; (BUintD8<26>, BIntD8<26>), (BUintD16<13>, BIntD16<13>));
        $mac!(232; (BUintD8<29>, BIntD8<29>));
        $mac!(304; (BUintD16<19>, BIntD16<19>));
        $mac!(352; (BUintD16<22>, BIntD16<22>), (BUintD32<11>, BIntD32<11>));
        $mac!(400; (BUintD16<25>, BIntD16<25>));
        $mac!(448; (BUintD16<28>, BIntD16<28>), (BUintD32<14>, BIntD32<14>), (BUint<7>, BInt<7>));
        $mac!(512; (BUintD16<32>, BIntD16<32>), (BUintD32<16>, BIntD32<16>), (BUint<8>, BInt<8>));
        $mac!(736; (BUintD32<23>, BIntD32<23>));
        $mac!(832; (BUintD32<26>, BIntD32<26>), (BUint<13>, BInt<13>));
        $mac!(928; (BUintD32<29>, BIntD32<29>));
        $mac!(1216; (BUint<19>, BInt<19>));
        $mac!(1408; (BUint<22>, BInt<22>));
        $mac!(1600; (BUint<25>, BInt<25>));
        $mac!(1792; (BUint<28>, BInt<28>));
    };
}
/// chunk 2 of the width sweep (see `for_sweep0!`)
#[macro_export]
macro_rules! for_sweep2 {
    ($mac:ident) => {
        $mac!(16; (BUintD8<2>, BIntD8<2>), (BUintD16<1>, BIntD16<1>));
        $mac!(40; (BUintD8<5>, BIntD8<5>));
        $mac!(64; (BUintD8<8>, BIntD8<8>), (BUintD16<4>, BIntD16<4>), (BUintD32<2>, BIntD32<2>), (BUint<1>, BInt<1>));
        $mac!(120; (BUintD8<15>, BIntD8<15>));
        $mac!(136; (BUintD8<17>, BIntD8<17>));
        $mac!(160; (BUintD8<20>, BIntD8<20>), (BUintD16<10>, BIntD16<10>), (BUintD32<5>, BIntD32<5>));
        $mac!(216; (BUintD8<27>, BIntD8<27>));
        $mac!(240; (BUintD8<30>, BIntD8<30>), (BUintD16<15>, BIntD16<15>));
        $mac!(256; (BUintD8<32>, BIntD8<32>), (BUintD16<16>, BIntD16<16>), (BUintD32<8>, BIntD32<8>), (BUint<4>, BInt<4>));
        $mac!(336; (BUintD16<21>, BIntD16<21>));
        $mac!(432; (BUintD16<27>, BIntD16<27>));
        $mac!(480; (BUintD16<30>, BIntD16<30>), (BUintD32<15>, BIntD32<15>));
        $mac!(544; (BUintD32<17>, BIntD32<17>));
        $mac!(640; (BUintD32<20>, BIntD32<20>), (BUint<10>, BInt<10>));
        $mac!(864; (BUintD32<27>, BIntD32<27>));
        $mac!(960; (BUintD32<30>, BIntD32<30>), (BUint<15>, BInt<15>));
        $mac!(1024; (BUintD32<32>, BIntD32<32>), (BUint<16>, BInt<16>));
        $mac!(1344; (BUint<21>, BInt<21>));
        $mac!(1728; (BUint<27>, BInt<27>));
        $mac!(1920; (BUint<30>, BInt<30>));
        $mac!(2112; (BUint<33>, BInt<33>));
    };
}
/// chunk 3 of the width sweep (see `for_sweep0!`)
#[macro_export]
macro_rules! for_sweep3 {
    ($mac:ident) => {
        $mac!(24; (BUintD8<3>, BIntD8<3>));
        $mac!(48; (BUintD8<6>, BIntD8<6>), (BUintD16<3>, BIntD16<3>));
        $mac!(72; (BUintD8<9>, BIntD8<9>));
        $mac!(96; (BUintD8<12>, BIntD8<12>), (BUintD16<6>, BIntD16<6>), (BUintD32<3>, BIntD32<3>));
        $mac!(144; (BUintD8<18>, BIntD8<18>), (BUintD16<9>, BIntD16<9>));
        $mac!(168; (BUintD8<21>, BIntD8<21>));
        $mac!(192; (BUintD8<24>, BIntD8<24>), (BUintD16<12>, BIntD16<12>), (BUintD32<6>, BIntD32<6>), (BUint<3>, BInt<3>));
        $mac!(248; (BUintD8<31>, BIntD8<31>));
        $mac!(264; (BUintD8<33>, BIntD8<33>));
        $mac!(288; (BUintD16<18>, BIntD16<18>), (BUintD32<9>, BIntD32<9>));
        $mac!(368; (BUintD16<23>, BIntD16<23>));
        $mac!(384; (BUintD16<24>, BIntD16<24>), (BUintD32<12>, BIntD32<12>), (BUint<6>, BInt<6>));
        $mac!(464; (BUintD16<29>, BIntD16<29>));
        $mac!(528; (BUintD16<33>, BIntD16<33>));
        $mac!(576; (BUintD32<18>, BIntD32<18>), (BUint<9>, BInt<9>));
        $mac!(672; (BUintD32<21>, BIntD32<21>));
        $mac!(768; (BUintD32<24>, BIntD32<24>), (BUint<12>, BInt<12>));
        $mac!(992; (BUintD32<31>, BIntD32<31>));
        $mac!(1056; (BUintD32<33>, BIntD32<33>));
        $mac!(1152; (BUint<18>, BInt<18>));
        $mac!(1472; (BUint<23>, BInt<23>));
        $mac!(1536; (BUint<24>, BInt<24>));
        $mac!(1856; (BUint<29>, BInt<29>));
    };
}
/// no giants in the sweep binaries
#[macro_export]
macro_rules! for_nothing {
    ($mac:ident) => {};
}


/// the primitive integers, used to calibrate the specification (a disagreement there is a
/// specification error, never a violation)
#[macro_export]
macro_rules! for_prims {
    ($mac:ident) => {
        $mac!(8; (u8, i8));
        $mac!(16; (u16, i16));
        $mac!(32; (u32, i32));
        $mac!(64; (u64, i64));
        $mac!(128; (u128, i128));
    };
}

/// `--width w[,w...]`: restrict a run to some widths (None = all widths of the matrix)
pub struct WidthSel(pub Option<Vec<u32>>);
impl WidthSel {
    pub fn map_or<F: Fn(u32) -> bool>(&self, d: bool, f: F) -> bool {
        match &self.0 {
            None => d,
            Some(v) => v.iter().any(|x| f(*x)),
        }
    }
    pub fn is_some(&self) -> bool {
        self.0.is_some()
    }
}

/// command line: <out.ndjson> [--seed N] [--tier quick|thorough] [--only-width W] [--prims]
pub struct Cli {
    pub out: String,
    pub seed: u64,
    pub tier: String,
    pub only_width: WidthSel,
    pub prop: String,
    pub extra: Vec<String>,
}

pub static CHK_OVERRIDE: std::sync::OnceLock<String> = std::sync::OnceLock::new();

pub fn parse_cli() -> Cli {
    let a: Vec<String> = std::env::args().collect();
    let mut c = Cli { out: "-".into(), seed: 0, tier: "quick".into(), only_width: WidthSel(None), prop: String::new(), extra: vec![] };
    let mut i = 1;
    while i < a.len() {
        match a[i].as_str() {
            "--out" => {
                c.out = a[i + 1].clone();
                i += 1;
            }
            "--seed" => {
                c.seed = a[i + 1].parse().expect("seed");
                i += 1;
            }
            "--tier" => {
                c.tier = a[i + 1].clone();
                i += 1;
            }
            "--width" => {
                c.only_width = WidthSel(Some(a[i + 1].split(',').map(|x| x.parse().expect("width")).collect()));
                i += 1;
            }
            "--prop" => {
                c.prop = a[i + 1].clone();
                i += 1;
            }
            "--chk" => {
                // the check on whose behalf the drivers of another property are run (written to the `chk` field)
                let _ = CHK_OVERRIDE.set(a[i + 1].clone());
                i += 1;
            }
            x => c.extra.push(x.to_string()),
        }
        i += 1;
    }
    c
}
