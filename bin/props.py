"""Per-property configuration of bin/check: which harness binary, which build modes, which TLC
configurations, which tables; the measured non-triviality rules; known-finding predicates.
Python is used for bookkeeping only (classification of inputs, triage against the committed
known-findings file); every verdict comes from TLC evaluating the TLA+ specification."""
import json

TLC_TRACE_TIMEOUT = 3000

COMMON_ASSUMPTIONS = [
    "the verdict for every event is computed by TLC from the TLA+ specification (spec/*.tla); Rust and Python only execute, encode and count",
    "values are read out of bnum through digits()/from_digits/to_bits/from_bits only; panics are observed with catch_unwind",
    "TLC proves nothing about widths, digit counts or operands that were not enumerated or recorded in this run",
    "the specification is calibrated against Rust's primitive integers on the same drivers where a primitive method exists",
]


def to_int(arg):
    """exact value of a typed integer argument (bookkeeping only)"""
    v = 0
    for i, b in enumerate(arg["v"]):
        v |= b << (8 * i)
    if arg.get("t") == "i" and arg["s"] and arg["v"] and arg["v"][-1] & 0x80:
        v -= 1 << (8 * len(arg["v"]))
    if arg.get("t") == "z" and arg.get("neg"):
        v = -v
    return v


def show_args(args):
    out = []
    for a in args:
        if a["t"] in ("i", "n", "z"):
            x = to_int(a)
            out.append(("%#x" % x) if abs(x) > 9 else str(x))
        elif a["t"] == "b":
            out.append(str(a["b"]).lower())
        elif a["t"] == "s":
            try:
                out.append(repr(bytes(a["v"]).decode("utf-8")))
            except Exception:
                out.append(repr(bytes(a["v"])))
        else:
            out.append(str(a.get("v")))
    return "(" + ", ".join(out) + ")"


def match(o, x):
    """mirror of ArithSem!Match, used only to display which forms disagreed"""
    if x is None:
        return False
    k = x.get("k")
    if k == "free":
        return True
    if k == "anyval":
        return o.get("k") == "val"
    if k == "nopanic":
        return o.get("k") != "panic"
    if k == "oneof":
        return o in x["set"]
    return o == x


def any_flag(e):
    for o in e["fo"].values():
        if o.get("k") in ("none", "panic") or o.get("f") is True:
            return True
    return False


def carry_crosses_byte(e):
    ints = [a for a in e["a"] if a["t"] == "i"]
    if len(ints) < 2:
        return False
    n = len(ints[0]["v"])
    a = to_int(dict(ints[0], s=False))
    b = to_int(dict(ints[1], s=False))
    m = (1 << 8) - 1
    # a carry or borrow out of the lowest byte that continues into a higher byte
    return ((a & m) + (b & m)) > m or (a & m) < (b & m)


def nontrivial_c01(e):
    return any_flag(e) or carry_crosses_byte(e)


PROPS = {
    "C01": {
        "bin": "arith",
        "modes": {"quick": ["debug", "release"], "thorough": ["debug", "release"]},
        "prims": True,
        "rule": "one case = (operation, width, signedness, operand tuple), all forms and all digit types of the width evaluated; "
                "operands: fixed sign/overflow corners, carry and borrow chains through k whole digits at byte/u16/u32/u64 granularity, "
                "extreme-digit and random draws (seeded); non-trivial = some form reports overflow (flag/None/panic) or a carry/borrow leaves the lowest byte",
        "nontrivial": nontrivial_c01,
        "mc": {"quick": [], "thorough": []},
    },
}

def arith_entry(rule, nontrivial, modes=None, **kw):
    # both build modes in every tier: the forms of one family must agree with the specification in a build
    # with and in a build without debug assertions (a release-only slip in one form is otherwise invisible)
    d = {"bin": "arith", "modes": modes or {"quick": ["debug", "release"], "thorough": ["debug", "release"]}, "prims": True,
         "rule": rule, "nontrivial": nontrivial, "mc": {"quick": [], "thorough": []}}
    d.update(kw)
    return d


def multi_digit(e, idx=1):
    """the idx-th integer operand needs more than one u64 digit... bookkeeping: significant bytes > 1"""
    ints = [a for a in e["a"] if a["t"] == "i"]
    if len(ints) <= idx:
        return False
    x = abs(to_int(ints[idx]))
    return x >= 256


PROPS["C02"] = arith_entry(
    "one case = (operation, width, signedness, operand tuple) with all forms, on every digit type of the width; operands: sign corners, "
    "(2^k+d1)*(2^(W-k)+d2) and a*(LIMIT div a [+1]) products at/just below/just above 2^W and 2^(W-1) with all sign combinations, "
    "single-digit operands placed so that only the index test or the last carry overflows, extreme-digit and random draws; "
    "non-trivial = both operands have magnitude >= 2 and some form reports overflow, or both operands exceed one byte",
    lambda e: (any_flag(e) and all(abs(to_int(a)) >= 2 for a in e["a"] if a["t"] == "i")) or (multi_digit(e, 0) and multi_digit(e, 1)))
PROPS["C03"] = arith_entry(
    "one case = (operation, width, signedness, dividend, divisor) with all forms, on every digit type of the width; operands: zero divisors, MIN/-1, MIN/1, "
    "extreme-digit dividends with extreme-digit divisors shorter by 0..N-1 bytes (quotient-digit correction and add-back become common at every digit size), "
    "dividends whose digit above the divisor's length equals the divisor's top digit, exact multiples q*d and q*d+-1 with all signs, small divisors, random draws; "
    "non-trivial = divisor magnitude needs more than one byte and is not larger than the dividend's magnitude, or a zero divisor / MIN,-1 case",
    lambda e: (multi_digit(e, 1) and abs(to_int(e["a"][0])) >= abs(to_int(e["a"][1]))) or to_int(e["a"][1]) == 0 or any_flag(e))
PROPS["C08"] = arith_entry(
    "one case = (pow|ilog|ilog2|ilog10, width, signedness, operands) with all forms, on every digit type; pow: bases {0,+-1,+-2,+-3,10,MIN,MAX,+-2^j,2^(W/2)+-1}, "
    "exponents {0..3, W-1, W, W+1}, (+-2^j)^e with j*e at W-1 / W, huge exponents up to 2^32-1, random small bases; logs: x in {b^k-1, b^k, b^k+1} for "
    "b in {2,3,7,10,2^(W/2)+-1,MAX,...}, non-positive arguments, bases < 2; non-trivial = result is neither 0/1 nor a trivially overflowing case: "
    "|base| >= 2 and exponent >= 2 for pow, argument >= base^2 for logs, or an error case",
    lambda e: (e["op"] == "pow" and abs(to_int(e["a"][0])) >= 2 and to_int(e["a"][1]) >= 2) or (e["op"] != "pow" and (any_flag(e) or abs(to_int(e["a"][0])) >= 100)))
PROPS["C04"] = arith_entry(
    "the add/sub/neg/abs, mul, div/rem, pow/ilog families plus << and >> with each of the 12 primitive right-hand-side types (amounts negative, >= BITS, > u32::MAX) and "
    "next_power_of_two, recorded in BOTH build modes (debug assertions on and off) on every digit type; the specification takes the build mode as a parameter; "
    "non-trivial = some form panics, reports overflow, or the two modes are specified to differ",
    any_flag, modes={"quick": ["debug", "release"], "thorough": ["debug", "release"]})

def bits_entry(rule, nontrivial, **kw):
    d = {"bin": "bits", "modes": {"quick": ["debug"], "thorough": ["debug", "release"]}, "prims": True,
         "rule": rule, "nontrivial": nontrivial, "mc": {"quick": [], "thorough": []}}
    d.update(kw)
    return d


PROPS["C05"] = bits_entry(
    "one case = (shl|shr|rotate_left|rotate_right, width, signedness, value, amount) with all forms (checked, overflowing, wrapping, strict, unbounded, unchecked, operator, inherent) on every digit type; "
    "amounts: 0..2W+1 at small widths, elsewhere 0, 1, every sampled multiple of 8/16/32/64 +-1, W-1, W, W+1, 2W+-1, 2^k and 2^k-1 up to 2^31, u32::MAX; values: all-ones, 1, MIN, MAX, boundary and random; "
    "non-trivial = amount is not a multiple of 8 (bit offset != 0) or amount >= BITS",
    lambda e: to_int(e["a"][1]) % 8 != 0 or to_int(e["a"][1]) >= e["w"])
PROPS["C06"] = bits_entry(
    "one case = (operation, width, signedness, operands) on every digit type; values: boundary set, k whole all-zero/all-one digits (at byte/u16/u32/u64 granularity, leading and trailing) followed by a partial digit with a random run length, "
    "2^k and 2^k+-1, random; bit indices: all (small widths) or digit boundaries +-1; non-trivial = the pattern has at least one whole extreme byte next to a mixed byte, or two operands",
    lambda e: len(e["a"]) >= 2 or any(b in (0, 255) for b in e["a"][0].get("v", [])) and any(b not in (0, 255) for b in e["a"][0].get("v", [])))
PROPS["C07"] = bits_entry(
    "one case = (cmp_all|clamp|sign, width, signedness, operands): all of == != < <= > >= (operators, trait methods, inherent const methods), cmp, partial_cmp, min, max, clamp, hash coherence, signum/is_positive/is_negative; "
    "pairs: sign corners, equal on the top k bytes and differing below, single-bit differences in any byte, opposite sign with equal magnitude bits, top digits ordered one way and lower digits the other, zero top digit with non-zero lower digits; "
    "non-trivial = operands differ and agree on their most significant byte, or are equal",
    lambda e: len(e["a"]) >= 2 and (e["a"][0]["v"] == e["a"][1]["v"] or e["a"][0]["v"][-1] == e["a"][1]["v"][-1]))

def conv_entry(rule, nontrivial, **kw):
    d = {"bin": "conv", "modes": {"quick": ["debug"], "thorough": ["debug", "release"]}, "prims": False,
         "rule": rule, "nontrivial": nontrivial, "mc": {"quick": [], "thorough": []}}
    d.update(kw)
    return d


def first_int(e):
    for a in e["a"]:
        if a["t"] == "i" and a["v"]:
            return to_int(a)
    return 0


PROPS["C09"] = conv_entry(
    "one case = (source type, target type, source value) for As::as_ and CastFrom::cast_from over all 1156 ordered pairs of 34 bnum types (every digit-size ratio in both directions, widths 8..192 incl. 24/40/72/136/144/160), "
    "each of 76 matrix types x 12 primitive integers in both directions, bool and char sources, plus cast_signed/cast_unsigned/to_bits/from_bits/as_bits; "
    "values: source boundary values, the target's MIN/MAX and neighbours embedded in the source, sign-extension patterns, random; "
    "non-trivial = the cast changes the width and the value is negative or does not fit the target",
    lambda e: e["op"] == "as" and e["a"][1]["w"] != e["a"][0]["w"] and (first_int(e) < 0 or first_int(e) >= (1 << (e["a"][1]["w"] - 1))),
    prims=False)
PROPS["C13"] = conv_entry(
    "one case = (source type, target type, value): BTryFrom over 1156 bnum pairs, TryFrom<bnum> for all 12 primitives, From/TryFrom<primitive|bool|char> into bnum types at least as wide, from_digits/From<[digit;N]>/Into<[digit;N]>/digits_mut/from_digit; "
    "values: target MIN-1, MIN, MIN+1, MAX-1, MAX, MAX+1 embedded in the source, boundary, random; non-trivial = the value lies within 1 of a bound of the target type, or is rejected",
    lambda e: any(o.get("k") == "err" for o in e["fo"].values()) or (e["op"] == "btryfrom" and abs(abs(first_int(e)) - (1 << (e["a"][1]["w"] - (1 if e["a"][1]["s"] else 0)))) <= 1))
PROPS["C15"] = conv_entry(
    "one case = (from_be_slice|from_le_slice, type, byte string) for every length 0..2*BYTES+2 (exhaustive over the byte alphabet {00,01,7f,80,ff} for BYTES <= 2; elsewhere value part random/extreme, excess part pure zero/sign padding with seeded impurities and sign-bit agreement/disagreement), "
    "and (to_be|to_le|from_be|from_le, type, value); non-trivial = slice length differs from BYTES and is not a multiple of 8 bytes, or the slice is rejected",
    lambda e: (e["op"].endswith("slice") and (len(e["a"][0]["v"]) != e["w"] // 8)) or any_flag(e))
PROPS["C15"]["nightly"] = True
PROPS_C16_MC = True
PROPS["C16"] = conv_entry(
    "constants of every matrix type (BITS, BYTES, MIN, MAX, ZERO, ONE..TEN, NEG_ONE..NEG_TEN, Default) and the seven alias pairs; cross-digit-type casts at equal width; "
    "narrow/wide commutation of add, sub, mul, div, rem, pow, shl, cmp, decimal print and parse over 16 (narrow, wide) configuration pairs; "
    "the value-level drivers of C01, C02, C03, C05, C06, C08, C10, C11, C12, C14, C15 re-run at 64, 128 or 192 bits (four digit types each) with one outcome group required per call; "
    "non-trivial = an event executed on at least two digit types, a narrow/wide event, or a constant other than ZERO",
    lambda e: True,
    extra={"quick": [("arith", "C01", [64]), ("arith", "C02", [192, 2080]), ("arith", "C03", [192]), ("bits", "C05", [192]), ("bits", "C06", [64]), ("arith", "C08", [64]),
                     ("text", "C10", [64]), ("text", "C11", [192]), ("text", "C12", [64]), ("float", "C14", [192]),
                     ("conv", "C15", [64, 128])],
           "thorough": [(b, p, [32, 64, 96, 128, 192, 256]) for (b, p) in [("arith", "C01"), ("arith", "C02"), ("arith", "C03"), ("bits", "C05"), ("bits", "C06"), ("bits", "C07"), ("arith", "C08"),
                                                                        ("text", "C10"), ("text", "C11"), ("text", "C12"), ("float", "C14"), ("float", "C19"), ("traits", "C18"),
                                                                        ("conv", "C15")]]})

def text_entry(rule, nontrivial, **kw):
    d = {"bin": "text", "modes": {"quick": ["debug"], "thorough": ["debug", "release"]}, "prims": True,
         "rule": rule, "nontrivial": nontrivial, "mc": {"quick": [], "thorough": []}}
    d.update(kw)
    return d


PROPS["C10"] = text_entry(
    "one case = (parse|from_radix, type, byte string, radix): from_str_radix, FromStr, str::parse, parse_bytes, parse_str_radix, from_radix_be/le; strings: canonical numerals of 0, 1, r-1, r, MAX-1, MAX, MAX+1, |MIN|, |MIN|+1, short/extreme/random magnitudes "
    "with sign in {none,+,-} and 0, 1, 2, cap, 2cap+1 leading zeros, upper/lower case; mutations inserting or substituting space, '_', sign, non-ASCII, NUL, 0xff, the digit equal to the radix; fixed malformed strings; radices 2..36 (2..256 for digit slices) plus out-of-range radices; "
    "non-trivial = more characters than the canonical numeral of MAX has, or an error outcome",
    lambda e: any(o.get("k") in ("err", "none", "panic") for o in e["fo"].values()) or len(e["a"][0]["v"]) > e["w"] // 5)
PROPS["C11"] = text_entry(
    "one case = (to_radix, type, value, radix): to_str_radix, to_radix_be, to_radix_le and the three print-then-parse round trips; values: 0, 1, r-1, r, MIN, MAX, a*r^j and a*r^j+1 (interior zero chunks), 2^k, boundary and random; radices: all powers of two, 10, 100, 255, 256, 3, 36, 85, random, a rotating third of 2..36, out-of-range radices; "
    "non-trivial = radix is not 2/10/16 and the value has more than one digit in that radix",
    lambda e: to_int(e["a"][1]) not in (2, 10, 16) and abs(to_int(e["a"][0])) >= max(2, to_int(e["a"][1])),
    prims=False)
PROPS["C12"] = text_entry(
    "one case = (value, trait, +, #, 0, fill, alignment, width) drawn from 1152 literal format strings (8 traits x 8 flag subsets x 9 fill/alignment choices x width given or not) with widths {0, 1, len-1, len, len+1, len+7, 255, len+k}; "
    "values: 0, 1, 9, 10, 100, +-1200, d*10^k, MIN, MAX, -1, interior zero digits and leading-zero nibbles at byte/u16/u32/u64 granularity, boundary, random; the same drivers run on u8..u128/i8..i128 calibrate the transcription of Rust's pad_integral; "
    "non-trivial = a width larger than the text is requested or a flag is set",
    lambda e: e["a"][2]["b"] or e["a"][3]["b"] or e["a"][4]["b"] or not e["a"][7].get("neg", False))

def float_entry(rule, nontrivial, **kw):
    d = {"bin": "float", "modes": {"quick": ["debug"], "thorough": ["debug", "release"]}, "prims": True,
         "rule": rule, "nontrivial": nontrivial, "mc": {"quick": [], "thorough": []}}
    d.update(kw)
    return d


PROPS["C14"] = float_entry(
    "one case = (int_to_float, type, value) for f32 and f64, or (float_to_int, float bit pattern, target type); integers: for bit lengths {2,8,23..27,52..56,63..65,127..130,1023..1026,W-1,W,random} every rounding class "
    "(kept mantissa all ones/even/odd/random x round bit x sticky zero/lowest/random), negatives, on all matrix types plus 1032-bit (u8x129) and 1088-bit (u64x17) types for the f64 infinity boundary; "
    "floats: exponent fields {0,1,2,bias-3..bias+2,bias+7,bias+8,bias+W-2..bias+W+1,bias+p-1..bias+p+1,max-1,max,random} x mantissas {0,1,all ones,half,half+1,random} x both signs (subnormals, +-0, infinities, NaNs); "
    "non-trivial = integer needs rounding (more than 24 significant bits), or float is non-finite, fractional below 1, or within one binade of the target's bounds",
    lambda e: (e["op"] == "int_to_float" and abs(to_int(e["a"][0])) >= (1 << 24)) or e["op"] == "float_to_int")
PROPS["C19"] = float_entry(
    "one case = (from_prim, primitive type, value, target), (from_float, bit pattern, target) or (to_prim, type, value) with all 12 to_* methods, to_f32/to_f64 and all 14 AsPrimitive casts; primitive values: bounds of the source and MIN-1..MAX+1 of the target; "
    "floats as for C14; non-trivial = the value lies within 1 of a bound of the target, or the result is None",
    lambda e: any(o.get("k") == "none" for o in e["fo"].values()) or e["op"] != "from_prim")

def traits_entry(rule, nontrivial, **kw):
    d = {"bin": "traits", "modes": {"quick": ["debug", "release"], "thorough": ["debug", "release"]}, "prims": False,
         "rule": rule, "nontrivial": nontrivial, "mc": {"quick": [], "thorough": []}}
    d.update(kw)
    return d


PROPS["C17"] = traits_entry(
    "one case = (operation, type, operands) with every form recorded in one event and judged by the semantics of the inherent method: by-value/by-reference operand combinations, op-assign and op-assign-by-reference, const inherent twins for + - * / % & | ^ ! and unary -, "
    "<< >> <<= >>= with each of the 12 primitive right-hand-side types in 6 forms each (amounts negative, >= BITS, > u32::MAX) and with bnum-typed amounts below BITS, Sum/Product over by-value and by-reference iterators of length 0..5 against the left fold, Add/Div/Rem<digit>; both build modes; "
    "non-trivial = some form panics or overflows, or the event is a fold / shift family",
    lambda e: any_flag(e) or e["op"] in ("fold", "shl_ops", "shr_ops", "digit_ops"))
PROPS["C18"] = traits_entry(
    "one case = (trait family, type, operands): Integer (div_floor, mod_floor, div_rem, div_mod_floor, gcd, lcm, is_multiple_of, divides, is_even, is_odd), Roots (sqrt, cbrt, nth_root for degrees 1..11, 13, 16, 17, 31..33, 40, 63..65, 100, 127..129, 255, 256, 1000, W-1..W+1, 2^31, 2^32-1 on x in {r^n-1, r^n, r^n+1}, MAX, MIN, random), "
    "Euclid/CheckedEuclid, Signed, Checked*/Wrapping*/Saturating*/Overflowing* forwarders, Pow, MulAdd(Assign), PrimInt counts/shifts/rotations/endianness, Bounded, Zero/One, Num::from_str_radix; roots are judged relationally (r^n <= |x| < (r+1)^n); "
    "non-trivial = a root of degree >= 2 of a value above 2^64, a floored division with operands of opposite sign, or a gcd/lcm of multi-byte operands",
    lambda e: (e["op"] == "root" and to_int(e["a"][1]) >= 2 and abs(to_int(e["a"][0])) >= (1 << 64)) or (e["op"] == "integer" and (to_int(e["a"][0]) < 0) != (to_int(e["a"][1]) < 0)) or (e["op"] == "integer" and multi_digit(e, 0) and multi_digit(e, 1)))

PROPS["C20"] = {
    "bin": "rand", "modes": {"quick": ["opt"], "thorough": ["opt"]}, "prims": False,
    "rule": "Standard/Fill/try_fill_slice on scripted byte streams (value bytes = stream bytes, bytes consumed, slice fill = element-wise fill); "
            "uniform sampling through Uniform::new(_inclusive).sample, sample_single(_inclusive), gen_range(.. and ..=): complete enumeration of all 2^8 / 2^16 first RNG words for 40 / 5 ranges per 8- and 16-bit type "
            "(sizes 1,2,3,...,2^k,2^k+1, ranges spanning zero, ending at MAX, starting at MIN) and of all 2^24 words for a non-power-of-two range on the 24-bit types (where the approximate rejection zone first applies), "
            "recorded as a histogram of results over accepted words; at every width membership and termination for the full range, size-1, size 2^k, 2^k+1 and random ranges on crafted word prefixes; "
            "non-trivial = a histogram event with a range size that is not a power of two, or a range spanning zero or touching a bound of the type",
    "nontrivial": lambda e: (e["op"] == "uniform_hist" and (to_int(e["a"][2]) & (to_int(e["a"][2]) - 1)) != 0) or (e["op"] == "uniform_point" and (to_int(e["a"][0]) < 0 <= to_int(e["a"][1]))) or e["op"] == "fill_slice",
    "mc": {"quick": [{"dir": "mc", "module": "MC_Uniform.tla", "cfg": "MC_Uniform_q.cfg", "workers": 4}],
           "thorough": [{"dir": "mc", "module": "MC_Uniform.tla", "cfg": "MC_Uniform_t.cfg", "workers": 8, "timeout": 3000}]},
}

def alg(module, cfg, **kw):
    d = {"dir": "alg", "module": module, "cfg": cfg, "workers": 6, "xmx": "8g", "timeout": 3000}
    d.update(kw)
    return d


PROPS["C03"]["mc"] = {
    "quick": [alg("KnuthD.tla", "KnuthD_4_2.cfg")],
    "thorough": [alg("KnuthD.tla", "KnuthD_4_2.cfg"), alg("KnuthD.tla", "KnuthD_2_4.cfg"), alg("KnuthD.tla", "KnuthD_3_3.cfg", workers=10),
                 alg("KnuthD.tla", "KnuthD_probe_corr1.cfg", expect_violation="NoCorr1"), alg("KnuthD.tla", "KnuthD_probe_corr2.cfg", expect_violation="NoCorr2"),
                 alg("KnuthD.tla", "KnuthD_probe_capped.cfg", expect_violation="NoCapped"), alg("KnuthD.tla", "KnuthD_probe_addback.cfg", expect_violation="NoAddBack")],
}
DIGIT_Q = [alg("MC_DigitAlgs.tla", "MC_DigitAlgs_2_3.cfg"), alg("MC_DigitAlgs.tla", "MC_DigitAlgs_3_2.cfg")]
DIGIT_T = DIGIT_Q + [alg("MC_DigitAlgs.tla", "MC_DigitAlgs_1_5.cfg"), alg("MC_DigitAlgs.tla", "MC_DigitAlgs_2_4.cfg", workers=10), alg("MC_DigitAlgs.tla", "MC_DigitAlgs_4_2.cfg", workers=10)]
for _p in ("C01", "C02", "C06", "C07"):
    PROPS[_p]["mc"] = {"quick": list(DIGIT_Q), "thorough": list(DIGIT_T)}
# Apalache (SMT): the carry / borrow / comparison loops at the REAL digit bases (2^8 .. 2^64), every digit value, N = 1..4
def apa(inv, cinit="CInit", **kw):
    d = {"tool": "apalache", "module": "ApaDigits.tla", "inv": inv, "cinit": cinit, "timeout": 3000}
    d.update(kw)
    return d


PROPS["C01"]["mc"]["quick"] = PROPS["C01"]["mc"]["quick"] + [apa("UAddSubOK"), apa("UAddOK", "CInitMut", expect_violation=True)]
PROPS["C01"]["mc"]["thorough"] = PROPS["C01"]["mc"]["thorough"] + [apa("AlgsOK"), apa("UAddOK", "CInitMut", expect_violation=True)]
PROPS["C07"]["mc"]["quick"] = PROPS["C07"]["mc"]["quick"] + [apa("CmpOK")]
PROPS["C07"]["mc"]["thorough"] = PROPS["C07"]["mc"]["thorough"] + [apa("CmpOK")]
# the pinned tree's rotation amount mask (n & (BITS-1)) is refuted at a non-power-of-two width and holds at a power of two
PROPS["C05"]["mc"] = {
    "quick": DIGIT_Q + [alg("MC_DigitAlgs.tla", "MC_DigitAlgs_mask_2_3.cfg", expect_violation="RotMaskOK")],
    "thorough": DIGIT_T + [alg("MC_DigitAlgs.tla", "MC_DigitAlgs_mask_2_3.cfg", expect_violation="RotMaskOK"), alg("MC_DigitAlgs.tla", "MC_DigitAlgs_mask_2_4.cfg")],
}
RADIX_Q = [alg("MC_RadixAlgs.tla", "MC_RadixAlgs_4_2.cfg"), alg("MC_RadixAlgs.tla", "MC_RadixAlgs_old_4_2.cfg", expect_violation="ParseOldOK")]
RADIX_T = RADIX_Q + [alg("MC_RadixAlgs.tla", "MC_RadixAlgs_8_1.cfg")]
PROPS["C10"]["mc"] = {"quick": list(RADIX_Q), "thorough": list(RADIX_T)}
PROPS["C11"]["mc"] = {"quick": [RADIX_Q[0]], "thorough": [RADIX_T[0], RADIX_T[2]]}
PROPS["C12"]["mc"] = {"quick": [RADIX_Q[0]], "thorough": [RADIX_T[0], RADIX_T[2]]}
PROPS["C18"]["mc"] = {"quick": [alg("NumAlgs.tla", "NumAlgs_fixed.cfg"), alg("NumAlgs.tla", "NumAlgs_old.cfg", expect_violation="NoOverflow")],
                      "thorough": [alg("NumAlgs.tla", "NumAlgs_fixed.cfg"), alg("NumAlgs.tla", "NumAlgs_fixed9.cfg", workers=10), alg("NumAlgs.tla", "NumAlgs_old.cfg", expect_violation="NoOverflow")]}
PROPS["C09"]["mc"] = {"quick": [alg("CastAlgs.tla", "CastAlgs_%d.cfg" % i, workers=2) for i in (2, 4, 9, 11)],
                      "thorough": [alg("CastAlgs.tla", "CastAlgs_%d.cfg" % i, workers=2) for i in range(1, 14)]}
PROPS["C15"]["mc"] = {"quick": [alg("SliceAlgs.tla", "SliceAlgs_%d.cfg" % i, workers=4) for i in (2, 4, 5)],
                      "thorough": [alg("SliceAlgs.tla", "SliceAlgs_%d.cfg" % i, workers=8) for i in range(1, 7)]}
POW_PROBES = [alg("PowAlgs.tla", "PowAlgs_probe_%s.cfg" % v, expect_violation=v, workers=4) for v in ("NoEarlyNone", "NoSignFlip", "NoMinPower", "NoDeepLog")]
PROPS["C08"]["mc"] = {"quick": [alg("PowAlgs.tla", "PowAlgs_6.cfg", workers=4), alg("PowAlgs.tla", "PowAlgs_8.cfg")] + POW_PROBES[:2],
                      "thorough": [alg("PowAlgs.tla", "PowAlgs_6.cfg", workers=4), alg("PowAlgs.tla", "PowAlgs_8.cfg"), alg("PowAlgs.tla", "PowAlgs_10.cfg", workers=10)] + POW_PROBES}
FA = lambda c, **kw: alg("FloatAlgs.tla", "FloatAlgs_%s.cfg" % c, workers=4, **kw)
FLOAT_Q = [FA("3_3_8"), FA("4_4_8"), FA("old", expect_violation="Correct"), FA("probe_NoCarry", expect_violation="NoCarry"), FA("probe_NoSaturate", expect_violation="NoSaturate")]
FLOAT_T = [FA(c) for c in ("3_3_4", "3_3_8", "3_3_10", "4_4_8", "4_4_12", "3_5_9")] + [FA("old", expect_violation="Correct")] + \
          [FA("probe_" + v, expect_violation=v) for v in ("NoCarry", "NoRoundToInf", "NoSaturate", "NoSubnormal", "NoShiftLeft")]
for _p in ("C14", "C19"):
    PROPS[_p]["mc"] = {"quick": list(FLOAT_Q) if _p == "C14" else [FA("3_3_8")],
                       "thorough": FLOAT_T + [{"dir": "mc", "module": "MC_Float.tla", "cfg": "MC_Float_6.cfg", "workers": 8, "timeout": 3000, "xmx": "6g"}]}
# AsPrimitive::as_ equals the As cast (C19): the cast drivers record the AsPrimitive forms next to As / CastFrom
PROPS["C19"]["extra"] = {"quick": [("conv", "C09", [64])], "thorough": [("conv", "C09", [8, 24, 64, 96, 192])]}
L2MC = {"dir": "mc", "module": "MC_L2.tla", "cfg": "MC_L2_b4.cfg", "workers": 6, "timeout": 3000}

BEH_MODES = ["debug", "release"]
PROPS["C17"]["tables"] = {"quick": [{"types": [(24, True), (64, False), (192, True)], "modes": BEH_MODES, "length": 30, "num": 25}],
                          "thorough": [{"types": [(8, False), (16, True), (24, True), (32, False), (64, True), (64, False), (96, True), (128, False), (192, True), (256, False)], "modes": BEH_MODES, "length": 40, "num": 150}]}
PROPS["C01"]["tables"] = {"quick": [{"types": [(96, False), (128, True)], "modes": ["debug"], "length": 30, "num": 25}],
                          "thorough": [{"types": [(24, False), (64, True), (96, False), (128, True), (192, False), (256, True)], "modes": BEH_MODES, "length": 40, "num": 150}]}
# the second-generation machine (division, powers, set_bit, shift-assign, print/parse and slice round trips, folds over the register
# file): behaviours at other widths for the properties that own those steps; a check reports only the steps it owns
for _p, _types, _modes in (("C02", [(88, False), (64, True)], ["debug"]), ("C03", [(40, True), (128, False)], ["debug"]),
                           ("C04", [(16, True), (320, False)], BEH_MODES), ("C05", [(24, False), (96, True)], ["debug"]),
                           ("C06", [(48, False), (136, False)], ["debug"]), ("C08", [(32, True), (72, False)], ["debug"]),
                           ("C10", [(112, True)], ["debug"]), ("C11", [(56, True), (256, False)], ["debug"]),
                           ("C15", [(120, True), (224, False)], ["debug"]), ("C16", [(64, False), (192, True)], ["debug"])):
    PROPS[_p]["tables"] = {"quick": [{"types": _types, "modes": _modes, "length": 30, "num": 25}],
                           "thorough": [{"types": _types + [(8, False), (16, True), (512, False)], "modes": BEH_MODES, "length": 40, "num": 150}]}
# FromStr (a trait form of C17) must agree with from_str_radix(_, 10): the parse families record both forms
PROPS["C17"]["extra"] = {"quick": [("text", "C10", [24, 64, 128])], "thorough": [("text", "C10", [8, 16, 24, 32, 64, 96, 128, 192, 256])]}
PROPS["C17"]["mc"] = {"quick": [{"dir": "mc", "module": "MC_Machine.tla", "cfg": "MC_Machine_i4q.cfg", "workers": 6, "timeout": 1800}],
                      "thorough": [{"dir": "mc", "module": "MC_Machine.tla", "cfg": c, "workers": 10, "xmx": "8g", "timeout": 3000} for c in ("MC_Machine_u4.cfg", "MC_Machine_i4.cfg", "MC_Machine_u4r.cfg", "MC_Machine_i6.cfg", "MC_Machine_i2d5.cfg", "MC_Machine_u2d5r.cfg")]}

# model-checking configurations every check runs: the L1 big-number layer underlies every oracle
PROPS["C16"]["mc"] = {"quick": [L2MC], "thorough": [L2MC, dict(L2MC, cfg="MC_L2_b16.cfg"), dict(L2MC, cfg="MC_L2_b2.cfg")]}
COMMON_MC = {
    "quick": [{"dir": "mc", "module": "MC_Fast.tla", "cfg": "MC_Fast_b4.cfg", "workers": 4}],
    "thorough": [{"dir": "mc", "module": "MC_Fast.tla", "cfg": "MC_Fast_b4.cfg", "workers": 4},
                 {"dir": "mc", "module": "MC_Fast.tla", "cfg": "MC_Fast_b256q.cfg", "workers": 4},
                 L2MC],
}
# the slower exhaustive configurations of the shared layers run in the thorough tier of the properties that own them
for _p in ("C01", "C02", "C03"):
    PROPS[_p]["mc"]["thorough"] = PROPS[_p]["mc"]["thorough"] + [{"dir": "mc", "module": "MC_L1.tla", "cfg": "MC_L1_b4.cfg", "workers": 4}, {"dir": "mc", "module": "MC_L1.tla", "cfg": "MC_L1_b256.cfg", "workers": 4}]
for _p in ("C05", "C06", "C08"):
    PROPS[_p]["mc"]["thorough"] = PROPS[_p]["mc"]["thorough"] + [dict(L2MC, cfg="MC_L2_b16.cfg"), dict(L2MC, cfg="MC_L2_b2.cfg")]

# second batch of digit-loop models (alg/MoreAlgs): widening/carrying multiplication, midpoint, short division and the division
# dispatch, signed multiplication / division wrappers, counting loops, bit/set_bit, reversals, per-digit hex/binary text,
# TryFrom representability tests -- every input at toy sizes
MORE_Q = [alg("MC_MoreAlgs.tla", "MC_MoreAlgs_2_3.cfg", workers=8)]
MORE_T = [alg("MC_MoreAlgs.tla", "MC_MoreAlgs_%s.cfg" % c, workers=10) for c in ("2_3", "3_2", "1_5", "4_2", "2_4")] + \
         [alg("MC_MoreAlgs.tla", "MC_MoreAlgs_probe_%s.cfg" % v, expect_violation=v, workers=4) for v in ("NoCarryOut", "NoMinProduct", "NoMidFix")]
for _p in ("C01", "C02", "C03", "C06", "C12", "C13"):
    PROPS[_p]["mc"]["quick"] = PROPS[_p]["mc"]["quick"] + MORE_Q
    PROPS[_p]["mc"]["thorough"] = PROPS[_p]["mc"]["thorough"] + (MORE_T if _p in ("C02", "C13") else MORE_Q)
# the general-radix chunked parser and the signed wrapper (alg/ParseAlgs): every digit string up to 5..7 symbols incl. an invalid one
PARSE_Q = [alg("MC_ParseAlgs.tla", "MC_ParseAlgs_8_1.cfg", workers=6), alg("MC_ParseAlgs.tla", "MC_ParseAlgs_probe_NoLooseKind.cfg", expect_violation="NoLooseKind", workers=4)]
PARSE_T = [alg("MC_ParseAlgs.tla", "MC_ParseAlgs_%s.cfg" % c, workers=8) for c in ("8_1", "4_2", "3_3")] + \
          [alg("MC_ParseAlgs.tla", "MC_ParseAlgs_probe_%s.cfg" % v, expect_violation=v, workers=4) for v in ("NoCarryPath", "NoAddOverflow", "NoLooseKind", "NoMinMagnitude")]
PROPS["C10"]["mc"]["quick"] = PROPS["C10"]["mc"]["quick"] + PARSE_Q
PROPS["C10"]["mc"]["thorough"] = PROPS["C10"]["mc"]["thorough"] + PARSE_T

KNOWN_PREDICATES = {}


def spec_hash():
    import hashlib, glob, os
    h = hashlib.sha256()
    root = os.environ.get("VERIF_ROOT", "/verif")
    for f in sorted(glob.glob(root + "/spec/*.tla") + glob.glob(root + "/spec/gen/*.tla") + glob.glob(root + "/spec/java/*.java")):
        h.update(open(f, "rb").read())
    return h.hexdigest()[:16]


def gen_behaviours(chk, w, signed, mode, length, num, seed):
    """TLC -simulate on spec/gen/GenBehaviours.tla; cached per (spec hash, parameters)"""
    import os
    root = os.environ.get("VERIF_ROOT", "/verif")
    cdir = os.path.join(root, "cache", spec_hash())
    os.makedirs(cdir, exist_ok=True)
    name = "beh_w%d_%s_%s_l%d_n%d_s%d" % (w, "i" if signed else "u", mode, length, num, seed)
    path = os.path.join(cdir, name + ".ndjson")
    if os.path.exists(path) and os.path.getsize(path) > 0:
        return path, 0, 0
    cfgp = os.path.join(chk.WORK, name + ".cfg")
    tmpl = open(os.path.join(root, "spec", "gen", "GenBehaviours.cfg.tmpl")).read()
    open(cfgp, "w").write(tmpl.replace("@MODE@", mode).replace("@W@", str(w)).replace("@S@", "TRUE" if signed else "FALSE").replace("@LEN@", str(length)))
    r = chk.tlc(os.path.join(root, "spec", "gen"), "GenBehaviours.tla", cfgp, workers=1, xmx="3g", timeout=1800,
                extra=["-simulate", "num=%d" % num, "-depth", str(length + 2), "-seed", str(seed + 1)])
    if "Error:" in r["out"] and "BEHAVIOUR" not in r["out"]:
        raise chk.ToolError("behaviour generation failed:\n" + chk.tlc_tail(r["out"]))
    if "is violated" in r["out"]:
        raise chk.ToolError("the machine specification violated its own invariant during simulation:\n" + chk.tlc_tail(r["out"]))
    seen = set()
    with open(path + ".tmp", "w") as f:
        for l in r["out"].splitlines():
            if l.startswith('"BEHAVIOUR '):
                body = json.loads(l)[len("BEHAVIOUR "):]
                if body not in seen:
                    seen.add(body)
                    f.write(body + "\n")
    os.replace(path + ".tmp", path)
    return path, r["generated"], len(seen)


def step_owners(kind, m):
    """the properties that speak about one machine step (a mismatch at a step is reported only by a check that owns it;
    the replayer resynchronises from the specification after any mismatch, so the rest of the behaviour is still judged)"""
    own = set()
    if kind in ("Assign", "ShAssign", "Fold") or m.startswith("op_") or m in ("min", "max"):
        own.add("C17")          # operator / op-assign / iterator / Ord trait forms
    if m.startswith("op_") or kind in ("Assign", "ShAssign"):
        own.add("C04")          # operators panic per build mode
    if m in ("wrapping_add", "wrapping_sub", "op_add", "op_sub", "saturating_add", "saturating_sub", "checked_add", "checked_sub", "midpoint",
             "wrapping_neg", "op_neg", "op_abs", "wrapping_abs", "sum", "sum_ref"):
        own.add("C01")
    if m in ("wrapping_mul", "op_mul", "checked_mul", "saturating_mul", "product", "product_ref"):
        own.add("C02")
    if m in ("checked_div", "checked_rem", "op_div", "op_rem", "checked_div_euclid", "checked_rem_euclid"):
        own.add("C03")
    if kind in ("Sh", "ShAssign"):
        own.add("C05")
    if m in ("bitand", "bitor", "bitxor", "not", "swap_bytes", "reverse_bits", "wrapping_next_power_of_two") or kind == "SetBit":
        own.add("C06")
    if m in ("min", "max", "signum"):
        own.add("C07")
    if kind == "Pow":
        own.add("C08")
    if m in ("rt_str_radix", "rt_display_parse"):
        own.update(("C10", "C11") if m == "rt_str_radix" else ("C10", "C12"))
    if m in ("rt_radix_be", "rt_radix_le"):
        own.update(("C10", "C11"))
    if m in ("rt_be_slice", "rt_le_slice"):
        own.add("C15")
    if kind == "Load":
        own.add("C13")          # from_digits
    own.add("C16")              # every step runs on every digit type of the width
    return own


def run_table(tb, bins, prop, seed, tier, chk):
    """spec -> impl: replay TLC-generated machine behaviours into the real library"""
    import os, subprocess
    res = {"rows": 0, "behaviours": 0, "states": 0, "transitions": 0, "violations": [], "summary": {"behaviours": []}}
    mbins = {}
    for mode in tb["modes"]:
        mbins[mode], _ = chk.build("machine", mode)
    for (w, signed) in tb["types"]:
        for mode in tb["modes"]:
            path, gen, nb = gen_behaviours(chk, w, signed, mode, tb["length"], tb["num"], seed)
            outp = os.path.join(chk.WORK, "%s_beh_%d_%s_%s.out" % (prop, w, signed, mode))
            r = chk.run([mbins[mode], path, outp])
            if r.returncode == 97:
                # a step that never returned: the replayer's watchdog named it
                import re as _re
                mh = _re.search(r"behaviour (\d+) step (\d+) (\S+) (\S+) (\S+)", r.stdout)
                if mh and prop in step_owners(mh.group(4), mh.group(5)):
                    beh = behs_by_index(path, int(mh.group(1)))
                    ev = {"i": 0, "p": prop, "op": "machine:%s:%s" % (mh.group(4), mh.group(5)), "w": w, "s": signed, "mode": mode, "impl": "bnum", "dts": [mh.group(3)],
                          "a": [{"t": "tag", "v": "behaviour %s step %s" % (mh.group(1), mh.group(2))}], "fo": {"step": {"k": "hang"}}, "pm": {}, "behaviour": beh, "step": int(mh.group(2))}
                    res["violations"].append((ev, {"step": {"k": "expected", "outcome": "a result (every call terminates)"}}, "behaviour:" + mode))
                res["summary"]["behaviours"].append({"w": w, "signed": signed, "mode": mode, "hang": r.stdout.strip().splitlines()[-1][:300]})
                continue
            if r.returncode != 0:
                raise chk.ToolError("behaviour replay failed:\n" + r.stdout[-3000:])
            behs = [json.loads(l) for l in open(path)]
            res["behaviours"] += len(behs)
            res["rows"] += sum(len(b["steps"]) for b in behs)
            res["states"] += sum(len(b["steps"]) for b in behs)
            res["transitions"] += sum(len(b["steps"]) - 1 for b in behs)
            nm = 0
            for l in open(outp):
                m = json.loads(l)
                if prop not in step_owners(m["kind"], m["m"]):
                    res["summary"].setdefault("mismatches_owned_by_other_properties", 0)
                    res["summary"]["mismatches_owned_by_other_properties"] += 1
                    continue
                nm += 1
                beh = behs_by_index(path, m["behaviour"])
                st = beh["steps"][m["step"]]
                ev = {"i": 0, "p": prop, "op": "machine:%s:%s" % (m["kind"], m["m"]), "w": w, "s": signed, "mode": mode, "impl": "bnum", "dts": [m["dt"]],
                      "a": [{"t": "tag", "v": "behaviour %d step %d" % (m["behaviour"], m["step"])}],
                      "fo": {"step": {"k": "got", "outcome": m["got"], "regs": m["got_regs"]}}, "pm": {}, "behaviour": beh, "step": m["step"]}
                res["violations"].append((ev, {"step": {"k": "expected", "outcome": m["expected"], "regs": m["expected_regs"]}}, "behaviour:" + mode))
            res["summary"]["behaviours"].append({"w": w, "signed": signed, "mode": mode, "behaviours": len(behs), "mismatching_steps": nm, "tlc_states_generated": gen})
    return res


def behs_by_index(path, idx):
    for i, l in enumerate(open(path)):
        if i == idx:
            return json.loads(l)
    return None


def replay_table(rp, binp, chk):
    import os
    ev = rp["event"]
    mode = ev["mode"]
    mb, _ = chk.build("machine", mode)
    inp = os.path.join(chk.WORK, "replay_beh.ndjson")
    open(inp, "w").write(json.dumps(ev["behaviour"]) + "\n")
    outp = inp + ".out"
    r = chk.run([mb, inp, outp])
    lines = open(outp).read().strip().splitlines()
    chk.log(r.stdout.strip())
    if lines:
        chk.log(lines[0][:1500])
        chk.log("VIOLATION property=%s replay=%s" % (rp["property"], "(the replayed behaviour)"))
        return 1
    chk.log("replay: the current tree follows the behaviour")
    return 0

DEFAULT_LEVEL_TEXT = ("TLC decides every recorded call against the explicit TLA+ specification of the API (exact integers, "
    "the overflowing pair and its projections): exhaustive over operand tuples at toy widths in the model-checking configurations, "
    "and over boundary-directed and random operands on every digit type of 16 widths (8..1024 bits, incl. 24/40/48/72/96/136/192/320) on the real code. "
    "This is the right level because the property is a universal statement over inputs and configurations of pure functions: the specification is the oracle and the code is bound through observable outcomes.")
DEFAULT_LEVEL_NOTE = ("trusted: TLC and the L1 big-number layer (checked against TLC's native integers by MC_L1), the harness's digits()/from_digits encoding and catch_unwind; "
    "assumed: operands outside the enumerated/recorded sets behave like those inside (no proof over all widths)")
DEFAULT_TECHNIQUE = "TLA+ specification + TLC; trace validation of recorded calls and replay of TLC-generated tables"
NOT_APPLICABLE = {}

_T = "explicit TLA+ specification + TLC: "
LEVELS = {
 "C01": ("ArithSem!C01Exp defines every add/sub/neg/abs form as a projection of the exact integer result; TLC checks the carry/borrow digit loops (alg/DigitAlgs: unsigned ripple, signed top digit, xor flag combination) for every operand pair at toy digit sizes and the ring homomorphism over whole programs (Machine!RingHom), and judges every recorded call family and every step of TLC-simulated machine behaviours replayed into the real library.",
         _T + "DigitAlgs/Machine model checking; trace validation of recorded call families; replay of simulated behaviours"),
 "C02": ("ArithSem!C02Exp (exact product, low half, flag, widening/carrying pair); alg/DigitAlgs!LongMul transcribes long_mul's overflow detection and is checked against the exact product for every operand pair at toy sizes; recorded products at/just below/just above 2^W and 2^(W-1) with all sign combinations are validated on every digit type.",
         _T + "LongMul model checking; trace validation with boundary-directed products"),
 "C03": ("ArithSem!C03Exp (truncated, euclidean, floored, ceiling division; zero divisor and MIN/-1 rules); alg/KnuthD is bnum's Algorithm D as a state machine checked for every dividend/divisor pair at (digit bits, digits) = (4,2), (2,4), (3,3) for correctness, quotient-digit bound, no internal overflow and termination, with every rare branch witnessed; recorded divisions use extreme-digit operands that make correction/add-back steps common at every digit size.",
         _T + "KnuthD model checking (all inputs, toy sizes, liveness); trace validation"),
 "C04": ("the same specification takes the build mode as a parameter (OOperator, OStrict, ShiftOps): every arithmetic family plus << >> with all 12 primitive right-hand-side types is recorded in a build with and in a build without debug assertions and judged by TLC; the panic outcome is data (catch_unwind), the calibration run shows the specification matches Rust's primitives in both modes.",
         _T + "mode-parametric semantics; trace validation of two builds; calibration on primitives"),
 "C05": ("ShiftSem (shift by s, flag/None exactly when s >= BITS, masked amount only for power-of-two widths, rotation by n mod BITS at every width); alg/DigitAlgs checks the digit-shift + bit-shift loops, the sign fill and the rotation for every value and amount at toy sizes and refutes the pinned tree's amount mask at a non-power-of-two width.",
         _T + "DigitAlgs model checking incl. negative probe; trace validation over all amount classes"),
 "C06": ("BitSem!C06Exp on the exact bit pattern; counting loops and reversals cross-checked at toy sizes (MC_L2, DigitAlgs); recorded values have k whole extreme digits followed by a partial digit at every granularity.",
         _T + "bit-pattern semantics; trace validation"),
 "C07": ("BitSem!C07Exp: all comparison forms (operators, trait methods, inherent const twins), min/max/clamp, hash coherence (equal values hash equally, == iff patterns equal), sign predicates; MSD-first comparison loops model-checked in DigitAlgs.",
         _T + "order semantics; trace validation of 28 forms per pair"),
 "C08": ("ArithSem!C08Exp: representability by capped exact power, wrapped value by modular square-and-multiply, logs by binary search cross-checked against the linear definition (MC_L2); recorded (base, exponent) pairs sit at the 2^W / 2^(W-1) boundary, including exponents up to 2^32-1 and power-of-two bases whose exponent products leave u32.",
         _T + "capped/modular power semantics; trace validation"),
 "C09": ("ConvSem!C09Exp: a cast is Wrap(target, value); recorded over all 1156 ordered pairs of 34 bnum types, all 12 primitives both ways, bool and char.",
         _T + "trace validation over the type-pair matrix"),
 "C10": ("TextSem!ParseStr is the grammar as a set-valued result (InvalidDigit forced only when the string is too short to overflow); alg/RadixAlgs transcribes the power-of-two-radix parser, is checked against the grammar for every digit string up to 6..10 symbols in both digit orders, and refutes the pinned tree's version on leading zeros.",
         _T + "RadixAlgs model checking incl. negative probe; trace validation of mutated numerals"),
 "C11": ("TextSem!C11Exp: canonical numeral; the three output routines (exact bit slicing, inexact bit slicing, division by radix powers) are model-checked against the canonical digit list for every value at toy sizes; print-then-parse round trips recorded with the outputs.",
         _T + "RadixAlgs model checking; trace validation over radices 2..256"),
 "C12": ("TextSem!FmtText transcribes Formatter::pad_integral / pad_formatted_parts and the exponent form; 1152 literal format strings; the same drivers on u8..u128 / i8..i128 calibrate the transcription against Rust itself in every run.",
         _T + "formatter semantics calibrated on primitives; trace validation"),
 "C13": ("ConvSem!C13Exp: Ok exactly when InRange(target, value); recorded with the target's MIN-1..MAX+1 embedded in every source type.",
         _T + "trace validation over the type-pair matrix"),
 "C14": ("FloatSem: IEEE-754 decode, truncation/saturation, round-to-nearest-even with carry into the exponent and overflow to infinity, on bit patterns; calibrated against `as` on primitives; widths above 1024 bits included for the f64 infinity boundary.",
         _T + "float semantics on bit patterns; trace validation of rounding classes"),
 "C15": ("ConvSem!C15Exp: a slice denotes an unsigned / two's-complement integer and is accepted iff it is in range; exhaustive over the byte alphabet {00,01,7f,80,ff} for 8- and 16-bit types and all lengths 0..2*BYTES+2; nightly byte-array methods through a separate nightly harness.",
         _T + "trace validation incl. exhaustive small alphabets"),
 "C16": ("the specification has no digit type; every event lists the digit types that produced its outcome and a second outcome group is a disagreement; narrow/wide commutation (NWExp) and constants (ConstVal) judged by TLC; drivers of ten other properties re-run on widths with four digit types.",
         _T + "digit-type-free semantics; outcome-group analysis; narrow/wide events"),
 "C17": ("every trait form is recorded as a form of the inherent family and judged by the inherent semantics (FixedInt!CanonForm); op-assign forms act on real registers in TLC-simulated machine behaviours (a panicking step must leave the register file unchanged); folds against the left fold with per-step panic semantics; both build modes.",
         _T + "form aliases; Machine model checking; replay of simulated behaviours; trace validation"),
 "C18": ("NumSem!C18Exp: floored division, gcd by Euclid on exact integers, roots judged relationally (r^n <= |x| < (r+1)^n), forwarders as form aliases; alg/NumAlgs checks the Newton iteration (no overflow, correct, terminating) and the binary gcd for every input at toy widths and refutes the pinned tree's overflowing power.",
         _T + "relational root oracle; NumAlgs model checking with liveness; trace validation"),
 "C19": ("FloatSem!C19Exp: Some exactly when representable (set-valued for negative floats truncating to 0 on unsigned targets), ToPrimitive/AsPrimitive against InRange/Wrap.",
         _T + "trace validation; calibration on primitives"),
 "C20": ("UniformSem: byte-exact Standard/Fill semantics; range membership; equal preimage counts judged by TLC on complete enumerations of the first RNG word (2^8, 2^16, and 2^24 for the approximate zone); mc/MC_Uniform model-checks the widening-multiply sampler with both zone formulas for every range at word sizes 2..8 (unbiasedness, progress).",
         _T + "MC_Uniform model checking; trace validation of complete histograms"),
}
for _k, (_text, _tech) in LEVELS.items():
    PROPS[_k]["level_text"] = _text + (" Exhaustive within the toy constants of the models; boundary-directed and random on the real code "
        "(22 densely sampled widths 8..1024 bits plus 2080 and 8192, every digit type; and the width sweep: every digit count N = 1..33 of every digit type, "
        "132 type pairs at 84 widths up to 2112 bits -- the quick tier runs the quarter of the sweep selected by the seed, the thorough tier all of it): no proof over all widths.")
    PROPS[_k]["technique"] = _tech
_EXTRA = {
 "C01": " Apalache (spec/apa/ApaDigits) decides the carry/borrow ripple, the signed top digit and the flag xor symbolically for every digit value at the real digit bases 2^8..2^64 and N = 1..4; alg/MoreAlgs checks midpoint and abs_diff for every operand pair at toy sizes.",
 "C02": " alg/MoreAlgs transcribes widening_mul, carrying_mul and the signed re-signing wrapper and checks hi*2^W+lo = a*b(+c) and the signed flag for every operand pair at toy sizes (the exact-MIN product and the low-half carry are witnessed).",
 "C03": " alg/MoreAlgs checks the short division by one digit (with its debug assertion), the dispatch in front of Algorithm D and the signed wrapper (no negation overflows outside MIN / -1) for every pair at toy sizes; division steps are replayed inside TLC-simulated machine behaviours.",
 "C04": " Machine behaviours in both build modes exercise the panicking operators, op-assign and shift-assign forms on real registers (a panicking step must leave the register file unchanged).",
 "C05": " Shift, rotate and shift-assign steps are replayed inside TLC-simulated machine behaviours.",
 "C06": " alg/MoreAlgs checks the counting loops with their early exits, is_power_of_two, checked_next_power_of_two, bit/set_bit, swap_bytes and reverse_bits for every value at toy sizes; set_bit acts on real registers in machine behaviours.",
 "C07": " Apalache decides the MSD-first comparison loops (unsigned and signed top digit) for every digit value at the real digit bases, N = 1..4.",
 "C08": " Power steps (wrapping, checked, saturating, operator) are replayed inside TLC-simulated machine behaviours.",
 "C10": " alg/ParseAlgs transcribes the general-radix chunked parser (first short chunk, multiply by radix^power with carry detection, checked_add) and BInt's sign wrapper and checks them against the grammar for every digit string up to 5..7 symbols including an invalid one, both digit orders, radices 3..15, with every error path witnessed. Print-then-parse steps (every radix) are replayed inside TLC-simulated machine behaviours.",
 "C11": " Print-then-parse and digits-then-parse round trips in every radix 2..256 are steps of TLC-simulated machine behaviours.",
 "C12": " alg/MoreAlgs checks the per-digit binary/hex text with zero-padded interior digits against the numeral of the value for every value at toy sizes.",
 "C13": " alg/MoreAlgs transcribes TryFrom<bnum> for primitives (digit wider than, and narrower than, the primitive; signed padding test) and the four BTryFrom bit-count tests and checks them against representability for every value and target width at toy sizes.",
 "C15": " Decoding the canonical encoding (from_be_slice / from_le_slice) is a step of TLC-simulated machine behaviours.",
 "C16": " Machine behaviours run on every digit type of the width with identical expected register files.",
 "C17": " The machine's second generation adds /=, %=, <<=, >>=, Sum/Product by value and by reference over the register file, and unary minus.",
}
for _k, _x in _EXTRA.items():
    PROPS[_k]["level_text"] = PROPS[_k]["level_text"] + _x
PROPS["C01"]["technique"] += "; Apalache (SMT) on the digit loops at real digit bases"
PROPS["C07"]["technique"] += "; Apalache (SMT) on the comparison loops at real digit bases"
