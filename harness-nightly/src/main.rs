//! Recorder for the nightly-only byte-array methods of property C15:
//! to_{be,le,ne}_bytes and from_{be,le,ne}_bytes are exact inverses producing the two's-complement bytes.
//! Built with `cargo +nightly` and bnum's `nightly` feature; concrete types only.
#![allow(incomplete_features)]
#![feature(generic_const_exprs)]

use bnum::{BInt, BIntD16, BIntD32, BIntD8, BUint, BUintD16, BUintD32, BUintD8};
use std::fmt::Write as _;
use std::io::Write as _;

struct Rng(u64);
impl Rng {
    fn next(&mut self) -> u64 {
        self.0 = self.0.wrapping_add(0x9E3779B97F4A7C15);
        let mut z = self.0;
        z = (z ^ (z >> 30)).wrapping_mul(0xBF58476D1CE4E5B9);
        z = (z ^ (z >> 27)).wrapping_mul(0x94D049BB133111EB);
        z ^ (z >> 31)
    }
}
fn jbytes(s: &mut String, b: &[u8]) {
    s.push('[');
    for (i, x) in b.iter().enumerate() {
        if i > 0 {
            s.push(',');
        }
        let _ = write!(s, "{}", x);
    }
    s.push(']');
}
fn values(r: &mut Rng, n: usize, count: usize) -> Vec<Vec<u8>> {
    let mut v: Vec<Vec<u8>> = vec![vec![0; n], vec![0xff; n]];
    let mut one = vec![0u8; n];
    one[0] = 1;
    v.push(one);
    let mut min = vec![0u8; n];
    min[n - 1] = 0x80;
    v.push(min);
    let mut max = vec![0xffu8; n];
    max[n - 1] = 0x7f;
    v.push(max);
    v.push((0..n).map(|i| (i + 1) as u8).collect());
    while v.len() < count {
        v.push((0..n).map(|_| (r.next() >> 13) as u8).collect());
    }
    v
}

macro_rules! bytes_events {
    ($out:expr, $n:expr, $seed:expr; $(($T:ty, $U:ty, $D:ty, $signed:tt, $dt:literal)),*) => {$(
        {
            const SZ: usize = core::mem::size_of::<$D>();
            let bytes_len: usize = <$U>::BYTES as usize;
            let mut r = Rng($seed ^ (bytes_len as u64) << 20 ^ ($signed as u64));
            for b in values(&mut r, bytes_len, 24) {
                // build the value from its little-endian bytes through from_digits only
                let mut ds = [0 as $D; { <$U>::BYTES as usize / core::mem::size_of::<$D>() }];
                for i in 0..ds.len() {
                    let mut x = [0u8; SZ];
                    x.copy_from_slice(&b[i * SZ..(i + 1) * SZ]);
                    ds[i] = <$D>::from_le_bytes(x);
                }
                let u = <$U>::from_digits(ds);
                let x: $T = to_t!($T, $U, u, $signed);
                let le = x.to_le_bytes();
                let be = x.to_be_bytes();
                let ne = x.to_ne_bytes();
                let mut arr_le = [0u8; { <$U>::BYTES as usize }];
                arr_le.copy_from_slice(&b);
                let mut arr_be = arr_le;
                arr_be.reverse();
                let f_le = <$T>::from_le_bytes(arr_le);
                let f_be = <$T>::from_be_bytes(arr_be);
                let f_ne = <$T>::from_ne_bytes(if cfg!(target_endian = "little") { arr_le } else { arr_be });
                let enc = |v: $T| -> Vec<u8> { digits_of!(v, $signed).iter().flat_map(|d| d.to_le_bytes()).collect() };
                *$n += 1;
                let mut l = String::new();
                let _ = write!(l, "{{\"i\":{},\"chk\":\"C15\",\"p\":\"C15\",\"op\":\"bytes\",\"w\":{},\"s\":{},\"mode\":\"debug\",\"impl\":\"bnum\",\"ng\":1,\"dts\":[\"{}\"],\"a\":[{{\"t\":\"i\",\"w\":{},\"s\":{},\"v\":", *$n, bytes_len * 8, $signed, $dt, bytes_len * 8, $signed);
                jbytes(&mut l, &b);
                let _ = write!(l, "}},{{\"t\":\"tag\",\"v\":\"{}\"}}],\"fo\":{{", if cfg!(target_endian = "little") { "little" } else { "big" });
                let forms: Vec<(&str, bool, Vec<u8>)> = vec![
                    ("to_le_bytes", true, le.to_vec()), ("to_be_bytes", true, be.to_vec()), ("to_ne_bytes", true, ne.to_vec()),
                    ("from_le_bytes", false, enc(f_le)), ("from_be_bytes", false, enc(f_be)), ("from_ne_bytes", false, enc(f_ne)),
                ];
                for (k, (name, is_bytes, v)) in forms.iter().enumerate() {
                    if k > 0 {
                        l.push(',');
                    }
                    let _ = write!(l, "\"{}\":{{\"k\":\"{}\",\"v\":", name, if *is_bytes { "bytes" } else { "val" });
                    jbytes(&mut l, v);
                    l.push('}');
                }
                l.push_str("},\"pm\":{}}\n");
                $out.write_all(l.as_bytes()).unwrap();
            }
        }
    )*};
}
macro_rules! to_t {
    ($T:ty, $U:ty, $u:expr, false) => { $u };
    ($T:ty, $U:ty, $u:expr, true) => { <$T>::from_bits($u) };
}
macro_rules! digits_of {
    ($v:expr, false) => { *$v.digits() };
    ($v:expr, true) => { *$v.to_bits().digits() };
}

fn main() {
    let args: Vec<String> = std::env::args().collect();
    let path = &args[1];
    let seed: u64 = args.get(2).and_then(|s| s.parse().ok()).unwrap_or(0);
    let mut out = std::io::BufWriter::new(std::fs::File::create(path).unwrap());
    let mut n: u64 = 0;
    bytes_events!(out, &mut n, seed;
        (BUintD8<1>, BUintD8<1>, u8, false, "u8"), (BIntD8<1>, BUintD8<1>, u8, true, "u8"),
        (BUintD8<3>, BUintD8<3>, u8, false, "u8"), (BIntD8<3>, BUintD8<3>, u8, true, "u8"),
        (BUintD16<3>, BUintD16<3>, u16, false, "u16"), (BIntD16<3>, BUintD16<3>, u16, true, "u16"),
        (BUintD32<1>, BUintD32<1>, u32, false, "u32"), (BIntD32<3>, BUintD32<3>, u32, true, "u32"),
        (BUintD32<5>, BUintD32<5>, u32, false, "u32"),
        (BUint<1>, BUint<1>, u64, false, "u64"), (BInt<1>, BUint<1>, u64, true, "u64"),
        (BUint<2>, BUint<2>, u64, false, "u64"), (BInt<3>, BUint<3>, u64, true, "u64"),
        (BUintD8<17>, BUintD8<17>, u8, false, "u8"), (BInt<4>, BUint<4>, u64, true, "u64"), (BUintD16<8>, BUintD16<8>, u16, false, "u16")
    );
    out.flush().unwrap();
    eprintln!("recorded {} events (nightly byte-array methods)", n);
}
